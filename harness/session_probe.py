"""Runs inside the target interpreter: records ONE SESSION - the registry files read while the
package is imported (in the order they are opened), then a sequence of library calls.

usage: session_probe.py OPS.json OUT.json
OUT: [{"op":"load.file","kind":..,"nc":[..]}, ..., {"op":"load.done"}, {call op ..., "out": ...}, ...]
"""
from __future__ import annotations

import json
import pathlib
import sys

_events = []
_orig_open = pathlib.Path.open


def _open(self, *a, **kw):
    parent = self.parent.name
    if self.suffix == ".json" and parent.endswith("_registry"):
        kind = parent[: -len("_registry")]
        if kind in ("iban", "bank"):
            _events.append({"op": "load.file", "kind": kind, "nc": [ord(c) for c in self.name]})
    return _orig_open(self, *a, **kw)


pathlib.Path.open = _open
import probe  # noqa: E402  (imports schwifty: the load phase happens here)

pathlib.Path.open = _orig_open
_events.append({"op": "load.done"})


def main():
    with open(sys.argv[1]) as fp:
        ops = json.load(fp)
    out = list(_events)
    for op in ops:
        e = dict(op)
        e["out"] = probe.run(op)
        out.append(e)
    with open(sys.argv[2], "w") as fp:
        json.dump(out, fp)


if __name__ == "__main__":
    main()
