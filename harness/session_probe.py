"""Runs inside the target interpreter: records ONE SESSION - the registry files read while the
package is imported (in the order they are opened), then a sequence of library calls.

usage: session_probe.py OPS.json OUT.json
OUT: [{"op":"load.file","kind":..,"nc":[..]}, ..., {"op":"load.done"}, {call op ..., "out": ...}, ...]
"""
from __future__ import annotations

import builtins
import io
import json
import os
import pathlib
import sys

_events = []
_orig_path_open = pathlib.Path.open
_orig_io_open = io.open
_orig_builtin_open = builtins.open
_inside = [0]


def _note(path) -> None:
    try:
        p = pathlib.Path(os.fspath(path))
    except TypeError:
        return
    parent = p.parent.name
    if p.suffix == ".json" and parent.endswith("_registry"):
        kind = parent[: -len("_registry")]
        if kind in ("iban", "bank"):
            _events.append({"op": "load.file", "kind": kind, "nc": [ord(c) for c in p.name]})


def _path_open(self, *a, **kw):
    # Path.open goes on to io.open: count the read once
    if not _inside[0]:
        _note(self)
    _inside[0] += 1
    try:
        return _orig_path_open(self, *a, **kw)
    finally:
        _inside[0] -= 1


def _plain_open(file, *a, **kw):
    if not _inside[0]:
        _note(file)
    return _orig_io_open(file, *a, **kw)


# whichever way the package opens its registry files (Path.open, read_text, open(), io.open)
pathlib.Path.open = _path_open
io.open = _plain_open
builtins.open = _plain_open
import probe  # noqa: E402  (imports schwifty: the load phase happens here)

pathlib.Path.open = _orig_path_open
io.open = _orig_io_open
builtins.open = _orig_builtin_open
_events.append({"op": "load.done"})


def main():
    with open(sys.argv[1]) as fp:
        ops = json.load(fp)
    out = list(_events)
    for op in ops:
        e = dict(op)
        e["out"] = probe.run(op)
        out.append(e)
    with open(sys.argv[2], "w") as fp:
        json.dump(out, fp)


if __name__ == "__main__":
    main()
