"""Extension handlers for probe.py (registry loading, lookups, generation ...)."""
from __future__ import annotations

import copy
import json
import os
import shutil
import sys
import tempfile
from pathlib import Path

import schwifty
from schwifty import BIC, IBAN, registry
from schwifty import exceptions as exc_mod
from schwifty.bban import BBAN

import regstore
from export import tag, untag


def T(cp):
    return "".join(chr(c) for c in cp)


def C(s):
    return [ord(c) for c in s]


def merge(a):
    l, r = untag(a["l"]), untag(a["r"])
    res = registry.merge_dicts(l, r)
    return {"res": tag(res), "l_after": tag(l), "r_after": tag(r)}


_load_counter = [0]


def load(a):
    """Write the files into <package>/<fresh name>_registry and let the library's own
    loader read that directory.  Only possible in a scratch copy of the package."""
    pkg = Path(schwifty.__file__).parent
    if str(pkg).startswith("/repo"):
        raise RuntimeError("load op must run in a scratch package copy")
    _load_counter[0] += 1
    name = f"verif{os.getpid()}x{_load_counter[0]}"
    d = pkg / f"{name}_registry"
    d.mkdir()
    try:
        for f in a["files"]:
            with open(d / f["name"], "w", encoding="utf-8") as fp:
                json.dump(untag(f["tree"]), fp)
        res = registry.get(name)
        return {"res": tag(res)}
    finally:
        shutil.rmtree(d, ignore_errors=True)
        regstore.store().pop(name, None)


def strip_regex(table):
    return {k: ({kk: vv for kk, vv in v.items() if kk != "regex"} if isinstance(v, dict) else v)
            for k, v in table.items()}


def registry_dump(a):
    return {"iban": tag(strip_regex(registry.get("iban"))), "bank": tag(registry.get("bank"))}


HANDLERS = {
    "merge": merge,
    "load": load,
    "registry.dump": registry_dump,
}


# ------------------------------------------------------------------ lookups
def _try(fn):
    try:
        return {"k": "ok", "v": fn()}
    except Exception as e:  # noqa: BLE001
        return {"k": "exc", "cls": type(e).__name__, "lib": isinstance(e, exc_mod.SchwiftyException)}


def _answer(cc, code):
    objs = []

    def cands():
        objs[:] = BIC.candidates_from_bank_code(cc, code)
        return [C(str(b)) for b in objs]

    c = _try(cands)
    ch = _try(lambda: C(str(BIC.from_bank_code(cc, code))))
    # per candidate: does it list the queried bank code among its domestic bank codes (the full
    # lists - thousands of codes for some BICs - are compared by the bic.reverse events)
    inv = [{"lists_code": code in b.domestic_bank_codes, "ndom": len(b.domestic_bank_codes),
            "exists": bool(b.exists)} for b in objs] if c["k"] == "ok" else []
    return {"cc": C(cc), "code": C(code), "cands": c, "choice": ch, "inv": inv}


def bic_lookup(a):
    r = _answer(T(a["cc"]), T(a["code"]))
    return {"cands": r["cands"], "choice": r["choice"], "inv": r["inv"]}


def bic_reverse(a):
    b = BIC(T(a["bic"]), allow_invalid=True)
    return {"exists": bool(b.exists), "dom": [C(x) for x in b.domestic_bank_codes],
            "names": list(b.bank_names), "shorts": list(b.bank_short_names)}


def _opts(s):
    return {"z": True, "c": [], "s": ""} if s is None else {"z": False, "c": C(str(s)), "s": str(s)}


def iban_bank(a):
    o = IBAN(T(a["t"]), allow_invalid=True)
    bank = o.bank
    same = o.bban.bank is bank or o.bban.bank == bank
    bic = o.bic
    return {"bic": _opts(bic), "name": _opts(o.bank_name), "short": _opts(o.bank_short_name),
            "bankz": bank is None, "bank_key": C(bank["bank_code"]) if bank else [],
            "entry_name": _opts(bank["name"] if bank else None), "entry_short": _opts(bank["short_name"] if bank else None),
            "again_same": o.bank == bank,
            "bban_same": bool(same), "bban_bic": _opts(o.bban.bic)}


def lookup_model(a):
    banks = []
    for n, b in enumerate(a["banks"]):
        bic = T(b["bic"])
        banks.append({"country_code": T(b["cc"]), "bank_code": T(b["code"]),
                      "bic": (bic if bic or n % 2 else None), "primary": b["primary"],
                      "name": b["name"], "short_name": b["short"]})
    saved = dict(regstore.store())
    try:
        registry.save("bank", banks)
        registry.build_index("bank", index_name="bic", key="bic", accumulate=True)
        registry.build_index("bank", index_name="bank_code", key=("country_code", "bank_code"), accumulate=True)
        registry.build_index("bank", "country", key="country_code", accumulate=True)
        answers = [_answer(T(q[0]), T(q[1])) for q in a["queries"]]
    finally:
        regstore.store().clear()
        regstore.store().update(saved)
    return {"answers": answers}


HANDLERS.update({
    "bic.lookup": bic_lookup,
    "bic.reverse": bic_reverse,
    "iban.bank": iban_bank,
    "lookup.model": lookup_model,
})


# ------------------------------------------------------- national validation
def bban_nat(a):
    o = IBAN(T(a["t"]), allow_invalid=True)
    r = o.bban.validate_national_checksum()
    return {"ret": r is True, "rett": type(r).__name__}


def algo_validate(a):
    from schwifty.checksum import algorithms
    r = algorithms["DE:" + a["method"]].validate([T(a["account"])], "")
    return {"ret": r is True, "rett": type(r).__name__}


def algo_list(a):
    from schwifty.checksum import algorithms
    de = sorted(k[3:] for k in algorithms if k.startswith("DE:"))
    nat = sorted(k[:2] for k in algorithms if k.endswith(":default") and not k.startswith("DE:"))
    return {"de": de, "nat": [C(x) for x in nat]}


HANDLERS.update({"bban.nat": bban_nat, "algo.validate": algo_validate, "algo.list": algo_list})


# ---------------------------------------------------------------- generation
def iban_generate(a):
    kw = {}
    if "branch" in a and a.get("pass_branch", True):
        kw["branch_code"] = T(a["branch"])
    o = IBAN.generate(T(a["cc"]), bank_code=T(a["bank"]), account_code=T(a["acct"]), **kw)
    return {"val": C(str(o)), "cls": type(o).__name__}


def bban_from_components(a):
    kw = {"bank_code": T(a["bank"]), "branch_code": T(a["branch"]), "account_code": T(a["acct"])}
    for name in a.get("omit", []):          # a keyword the caller does not pass at all (= nothing supplied)
        kw.pop(name + "_code", None)
    o = BBAN.from_components(T(a["cc"]), **kw)
    return {"val": C(str(o)), "cls": type(o).__name__, "cc": C(o.country_code)}


COMPONENTS = ["account_id", "account_type", "account_code", "account_holder_id",
              "currency_code", "bank_code", "branch_code", "national_checksum_digits"]


def iban_rebuild(a):
    o = IBAN(T(a["t"]), allow_invalid=True)
    comps = {n: getattr(o, n) for n in COMPONENTS}
    r = BBAN.from_components(o.country_code, **comps)
    return {"rebuilt": C(str(r)), "comps": {n: C(v) for n, v in comps.items()}}


HANDLERS.update({"iban.generate": iban_generate, "bban.from_components": bban_from_components,
                 "iban.rebuild": iban_rebuild})


def iban_random(a):
    import random as _r
    kw = {k: T(v) for k, v in a.get("values", {}).items()}
    o = IBAN.random(T(a.get("country", [])), random=_r.Random(a["seed"]), use_registry=a.get("use_registry", True),
                    **kw)
    return {"val": C(str(o)), "cls": type(o).__name__}


HANDLERS.update({"iban.random": iban_random})


class RecordingRandom(__import__("random").Random):
    """random.Random that logs every draw it hands out (same stream as the base class)."""

    def __init__(self, seed):
        super().__init__(seed)
        self.draws = []

    def choice(self, seq):
        r = super().choice(seq)
        self.draws.append(["choice", len(seq)])
        return r

    def randint(self, a, b):
        r = super().randint(a, b)
        self.draws.append(["randint", a, b, r])
        return r


def _random_call(a, rnd):
    kw = {k: T(v) for k, v in a.get("vals", {}).items() if k in a.get("pinned", [])}
    cls = IBAN if a["op"] == "iban.random" else BBAN
    o = cls.random(T(a.get("country", [])), random=rnd, use_registry=a.get("use_registry", True), **kw)
    d = {"val": C(str(o)), "cls": type(o).__name__}
    if cls is BBAN:
        d["cc"] = C(o.country_code)
    # what a caller does with the result: read its fields (must not influence any later draw)
    for n in COMPONENTS + ["bic", "bank"]:
        try:
            getattr(o, n)
        except exc_mod.SchwiftyException:
            pass
    return d


def random_op(a):
    import random as _r
    rec = RecordingRandom(a["seed"])
    d = _random_call(a, rec)
    d["ndraws"] = len(rec.draws)
    # the generator the caller passed is the caller's: a later call WITHOUT a generator must not draw from it
    state = rec.getstate()
    cls = IBAN if a["op"] == "iban.random" else BBAN
    _try(lambda: cls.random(T(a.get("country", [])), use_registry=a.get("use_registry", True)))
    d["untouched"] = rec.getstate() == state
    # the same call with a plain, equally seeded generator must give the same result
    again = _try(lambda: _random_call(a, _r.Random(a["seed"])))
    d["again_same"] = again["k"] == "ok" and again["v"]["val"] == d["val"]
    return d


HANDLERS.update({"iban.random": random_op, "bban.random": random_op})


# ------------------------------------------------------------ value semantics
def _make(o):
    import copy as _copy
    import pickle as _pickle
    cls = o["cls"]
    if cls == "IBAN":
        x = IBAN(T(o["text"]), allow_invalid=True)
    elif cls == "BIC":
        x = BIC(T(o["text"]), allow_invalid=True)
    elif cls == "BBAN":
        x = BBAN(T(o["cc"]), T(o["text"]))
    else:
        x = T(o["text"])
    origin = x
    for v in o["via"]:
        if v == "copy":
            x = _copy.copy(x)
        elif v == "deepcopy":
            x = _copy.deepcopy(x)
        else:
            x = _pickle.loads(_pickle.dumps(x, protocol=int(v[6:])))
    return x, origin


def _comps(x):
    try:
        return _comps_raw(x)
    except exc_mod.SchwiftyException as e:      # e.g. unknown country of an unvalidated object
        return [C("!" + type(e).__name__)]


def _comps_raw(x):
    if isinstance(x, IBAN):
        return [C(getattr(x, n)) for n in COMPONENTS] + [C(str(x.bban)), C(x.bban.country_code)]
    if isinstance(x, BBAN):
        return [C(getattr(x, n)) for n in COMPONENTS]
    if isinstance(x, BIC):
        return [C(x.bank_code), C(x.country_code), C(x.location_code), C(x.branch_code)]
    return []


def _describe(x, origin):
    country = getattr(x, "country_code", "") if not type(x) is str else ""
    inner = type(x.bban).__name__ if isinstance(x, IBAN) and hasattr(x, "bban") else ""
    inner_o = type(origin.bban).__name__ if isinstance(origin, IBAN) and hasattr(origin, "bban") else ""
    return {"cls": type(x).__name__, "compact": C(str(x)), "country": C(country),
            "eq_origin": bool(x == origin) and bool(origin == x), "comps": _comps(x) + [C(inner)],
            "origin_comps": _comps(origin) + [C(inner_o)]}


def values_op(a):
    x, xo = _make(a["a"])
    y, yo = _make(a["b"])
    kind = a["kind"]
    if kind == "cmp":
        return {"eq": bool(x == y), "ne": bool(x != y), "lt": bool(x < y), "le": bool(x <= y), "gt": bool(x > y),
                "ge": bool(x >= y)}
    if kind == "hash":
        return {"same": hash(x) == hash(y)}
    if kind == "dict":
        d = {x: 1}
        return {"found": y in d and d[y] == 1, "in_set": y in {x}}
    if kind == "sort":
        return {"sorted": [C(str(v)) for v in sorted([x, y, "ZZ"])]}
    if kind == "props":
        return {"a": _describe(x, xo), "b": _describe(y, yo)}
    if kind == "container":
        # copies of SEVERAL objects in one operation (list / tuple / dict): each copy must still be
        # the value it was copied from
        import copy as _copy
        import pickle as _pickle
        out = {}
        for name, fn in (("list", lambda: _copy.deepcopy([x, y])), ("tuple", lambda: _copy.deepcopy((x, y))),
                         ("dict", lambda: list(_copy.deepcopy({"p": x, "q": y}).values())),
                         ("pickle", lambda: _pickle.loads(_pickle.dumps([x, y], 2))),
                         ("shallow", lambda: _copy.copy([x, y]))):
            cx, cy = fn()
            out[name] = {"a": _describe(cx, xo), "b": _describe(cy, yo)}
        return out
    if kind == "xproc":
        # the ordinary use of pickling: the object is used (hashed, as a dictionary key) here, pickled,
        # and unpickled in ANOTHER interpreter (other hash salt) - there it must still be its value
        import os
        import pickle as _pickle
        import subprocess
        out = {}
        for name, o, origin in (("a", x, xo), ("b", y, yo)):
            if type(o) is str:
                continue
            _ = {o: 1}                                     # hashed before it is pickled
            blob = _pickle.dumps([o, origin], protocol=a.get("protocol", 2))
            env = dict(os.environ, PYTHONHASHSEED=str(a.get("salt", 12345)), PYTHONPATH=os.pathsep.join(p for p in sys.path if p))
            r = subprocess.run([sys.executable, "-c", "import probe_ext; probe_ext.xproc_child()"], input=blob,
                               capture_output=True, env=env, timeout=120)
            if r.returncode != 0:
                raise RuntimeError("xproc child failed: " + r.stderr.decode()[-400:])
            out[name] = json.loads(r.stdout.decode())
        return out
    raise ValueError(kind)


def xproc_child():
    import pickle as _pickle
    o, origin = _pickle.loads(sys.stdin.buffer.read())
    s = str(o)
    d = _describe(o, origin)
    d.update({"hash_same": hash(o) == hash(s), "key_found": s in {o: 1} and o in {s: 1}, "in_set": o in {s},
              "eq_str": bool(o == s) and bool(s == o)})
    sys.stdout.write(json.dumps(d))


HANDLERS.update({"values": values_op})
