"""Input generation helpers.  Nothing here is an oracle: what is generated is
always judged by TLC against the specification.  (Check digits are computed
here only to *aim* at the accept side; the evidence counts how many events the
library accepted and the trace specification confirmed.)"""
from __future__ import annotations

import random
import string
import unicodedata

DIGITS = string.digits
UPPER = string.ascii_uppercase
ALNUM = DIGITS + UPPER

# the 29 white-space code points (for drivers; the spec has its own literal set)
SPACES = [9, 10, 11, 12, 13, 28, 29, 30, 31, 32, 133, 160, 5760] + list(range(8192, 8203)) + \
         [8232, 8233, 8239, 8287, 12288]

# non-ASCII characters whose Unicode upper-casing contains ASCII alphanumerics
AMBIGUOUS = [0xDF, 0x131, 0x149, 0x17F, 0x1F0, 0x1E96, 0x1E97, 0x1E98, 0x1E99, 0x1E9A,
             0xFB00, 0xFB01, 0xFB02, 0xFB03, 0xFB04, 0xFB05, 0xFB06]

WIDE_EXTRA = (
    [ord(c) for c in "-./_*+?\\[]^$()|{}:;,'\"!#%&<=>@`~"]
    + [0, 127]
    + [0x200B, 0xFEFF]                       # zero-width space, BOM: not white space
    + [0x660, 0x669, 0x966, 0x96F, 0xFF10, 0xFF19, 0x1D7D8, 0xB2, 0x2460]   # non-ASCII digits / numerics
    + [0xC4, 0xC9, 0x3A3, 0x410, 0x412, 0x415, 0xFF21, 0xFF3A, 0x212A, 0xE4, 0x3C3, 0x430]  # letters, confusables
    + [0xD800]                               # lone surrogate
)

QUICK_EXTRA = [ord("-"), ord("."), ord("$"), 0, 0x200B, 0x660, 0xFF11, 0x1D7D8, 0xC4, 0x410, 0xFF21, 0xE4,
               0x212A, 0xD800]


def alphabet(tier: str) -> list[int]:
    base = [ord(c) for c in ALNUM + string.ascii_lowercase]
    extra = QUICK_EXTRA if tier == "quick" else WIDE_EXTRA
    return base + extra + (SPACES if tier != "quick" else [32, 9, 160, 0x3000]) + (
        AMBIGUOUS if tier != "quick" else [0xDF, 0x17F, 0xFB01])


def ascii_upper(cp: int) -> int:
    return cp - 32 if 97 <= cp <= 122 else cp


def flags(cps: list[int]) -> tuple[bool, bool]:
    """(judge, cmp): judge = no Ambiguous character; cmp = Unicode upper() of every
    character equals the spec's ASCII upper-casing (so compact forms are comparable)."""
    judge = True
    cmp_ = True
    for c in cps:
        ch = chr(c)
        up = ch.upper()
        if up != chr(ascii_upper(c)):
            cmp_ = False
            if any(x in ALNUM for x in up):
                judge = False
    return judge, cmp_


def mod97(s: str) -> int:
    r = 0
    for ch in s:
        v = ALNUM.index(ch)
        r = (r * 10 + v) % 97 if v < 10 else (r * 100 + v) % 97
    return r


def check_digits(cc: str, bban: str) -> str:
    return f"{98 - mod97(bban + cc + '00'):02d}"


def class_chars(k: int) -> str:
    return {110: DIGITS, 97: UPPER, 99: ALNUM, 101: " "}[k]


def row_classes(row: dict) -> list[int] | None:
    """Per-position classes when the structure is all-fixed and well-formed."""
    if row["wellformed"] and row["allfixed"]:
        return row["cls"]
    return None


def bban_for(row: dict, rng: random.Random, mode: str = "random") -> str | None:
    cls = row_classes(row)
    if cls is None:
        return None
    out = []
    for k in cls:
        chars = class_chars(k)
        if mode == "low":
            out.append(chars[0])
        elif mode == "high":
            out.append(chars[-1])
        elif mode == "letters" and k == 99:
            out.append(rng.choice(UPPER))
        elif mode == "sparse":
            out.append(chars[0])
        else:
            out.append(rng.choice(chars))
    if mode == "sparse":
        # zero padding with one or two significant characters (what account numbers mostly look like):
        # long runs of zeros after a non-zero character
        for _ in range(rng.choice((1, 1, 2))):
            p = min(rng.randrange(len(out)), rng.randrange(len(out)))
            out[p] = rng.choice(class_chars(cls[p])[1:] or class_chars(cls[p]))
    return "".join(out)


def echo_bbans(row: dict, rng: random.Random) -> list[str]:
    """Structure-conforming BBANs that repeat a piece of their own IBAN prefix (country code + "00",
    country code + the check digits): what a text substitution keyed by the prefix would hit twice."""
    cls = row_classes(row)
    if cls is None:
        return []
    cc = "".join(chr(c) for c in row["key"])
    spots = [p for p in range(len(cls) - 3)
             if cls[p] in (97, 99) and cls[p + 1] in (97, 99) and cls[p + 2] in (110, 99) and cls[p + 3] in (110, 99)]
    out = []
    for p in ([spots[0], spots[-1]] if spots else []):
        base = bban_for(row, rng)
        b = base[:p] + cc + "00" + base[p + 4:]
        out.append(b)
        for _ in range(3):          # towards a BBAN that contains its own country code + check digits
            b = b[:p] + cc + check_digits(cc, b) + b[p + 4:]
        out.append(b)
    return list(dict.fromkeys(out))


WORDS = ["IBAN", "BBAN", "BIC", "SWIFT", "NONE", "NULL", "TRUE", "NAN", "INF", "E", "X"]


def word_bbans(row: dict, rng: random.Random, words: list[str] | None = None) -> list[str]:
    """Structure-conforming BBANs whose letters spell a word that means something to software (a label
    that may be stripped, a literal that may be parsed): at the first place the structure allows."""
    cls = row_classes(row)
    if cls is None:
        return []
    out = []
    for w in (words or WORDS):
        spots = [p for p in range(len(cls) - len(w) + 1) if all(cls[p + i] in (97, 99) for i in range(len(w)))]
        if spots:
            base = bban_for(row, rng)
            p = spots[0]
            out.append(base[:p] + w + base[p + len(w):])
    return out


def cc_of(row: dict) -> str:
    return "".join(chr(c) for c in row["key"])


def valid_iban(row: dict, rng: random.Random, mode: str = "random") -> str | None:
    b = bban_for(row, rng, mode)
    if b is None:
        return None
    cc = cc_of(row)
    return cc + check_digits(cc, b) + b


def same_kind_alternatives(ch: str) -> str:
    if ch in DIGITS:
        return DIGITS.replace(ch, "")
    if ch in UPPER:
        return UPPER.replace(ch, "")
    return ""
