"""Runs inside the target interpreter: shared-state access recording and deterministic
thread scheduling for library calls (C14, C15).  Decides nothing.

usage: thr_probe.py JOB.json OUT.json
JOB: {"jobs": [ {"mode": "solo", "calls": [op...]}
              | {"mode": "access", "calls": [op, op(, op)], "order": [thread numbers 1..n]}
              | {"mode": "lines", "calls": [...], "turns": [[thread, nlines], ...]} ... ]}
Instrumentation is attached here at run time (no source hooks): the documented base
class schwifty.checksum.Algorithm gets __setattr__/__getattribute__ wrappers that report
every read/write of an *instance* attribute of an algorithm object (the process-wide
singletons).
"""
from __future__ import annotations

import json
import sys
import threading
import time

import probe  # noqa: F401  (imports schwifty, defines run())
import regstore
import schwifty.checksum as checksum_mod
from schwifty.checksum import algorithms

PKG_PREFIX = checksum_mod.__file__.rsplit("/checksum/", 1)[0]

# ----------------------------------------------------------------- recorder
_names = {}
for _k, _obj in algorithms.items():
    _names[id(_obj)] = _k

_tls = threading.local()
_hook = [None]          # callable(kind, loc, value) or None
_props = [False]        # also report accesses that go through properties (thread-local scratch)


def _val(v):
    if isinstance(v, bool) or v is None:
        return repr(v)
    if isinstance(v, (int, str)):
        return repr(v)
    return f"<{type(v).__name__}>"


_orig_setattr = checksum_mod.Algorithm.__setattr__
_orig_getattribute = checksum_mod.Algorithm.__getattribute__


def _is_prop(self, name):
    return isinstance(getattr(type(self), name, None), property)


def _setattr(self, name, value):
    h = _hook[0]
    if h is not None and id(self) in _names and (_props[0] or not _is_prop(self, name)):
        prefix = "tls:" if _is_prop(self, name) else ""
        h("W", f"{prefix}{_names[id(self)]}.{name}", _val(value), lambda: _orig_setattr(self, name, value))
    else:
        _orig_setattr(self, name, value)


def _getattribute(self, name):
    h = _hook[0]
    if h is None or name.startswith("__"):
        return _orig_getattribute(self, name)
    d = _orig_getattribute(self, "__dict__")
    if name in d and id(self) in _names:
        box = []
        h("R", f"{_names[id(self)]}.{name}", None, lambda: box.append(_orig_getattribute(self, name)))
        return box[0]
    if _props[0] and id(self) in _names and _is_prop(self, name):
        box = []
        h("R", f"tls:{_names[id(self)]}.{name}", None, lambda: box.append(_orig_getattribute(self, name)))
        return box[0]
    return _orig_getattribute(self, name)


checksum_mod.Algorithm.__setattr__ = _setattr
checksum_mod.Algorithm.__getattribute__ = _getattribute


def snapshot():
    out = []
    for k, obj in sorted(algorithms.items()):
        for name, v in sorted(_orig_getattribute(obj, "__dict__").items()):
            out.append([f"{k}.{name}", _val(v)])
    return out


def census():
    """Structural digest of the mutable module-level state of the package."""
    import hashlib
    from schwifty import registry
    h = hashlib.sha256()
    for name in sorted(regstore.store(), key=str):
        v = regstore.store()[name]
        h.update(repr(name).encode())
        h.update(repr(len(v)).encode())
        if isinstance(v, dict):
            for k in list(v)[:: max(1, len(v) // 200)]:
                h.update(repr(k).encode())
                item = v[k]
                h.update(repr({kk: vv for kk, vv in item.items() if kk != "regex"} if isinstance(item, dict)
                              else item)[:2000].encode())
        else:
            for item in v[:: max(1, len(v) // 200)]:
                h.update(repr(item)[:500].encode())
    h.update(repr(snapshot_nonscratch()).encode())
    return h.hexdigest()


def census_full():
    """Complete, order-sensitive digest of every registry (countries, banks, all indexes):
    the pickle of the whole registry object graph (about 50 ms)."""
    import hashlib
    import pickle
    from schwifty import registry
    return hashlib.sha256(pickle.dumps(regstore.store(), protocol=4)).hexdigest()[:20]


def snapshot_nonscratch():
    return sorted(algorithms)


# ----------------------------------------------------------------- solo mode
def run_solo_with_values(calls, boxes=None):
    """Each call alone; access list with the values seen."""
    res = []
    for op in calls:
        before = dict((loc, val) for loc, val in snapshot())
        log = []

        def hook(kind, loc, val, do):
            do()
            if kind == "W":
                before[loc] = val
                log.append(["W", loc, val])
            elif loc.startswith("tls:"):
                obj_key, _, attr = loc[4:].rpartition(".")
                log.append(["R", loc, _val(_orig_getattribute(algorithms[obj_key], attr))])
            else:
                log.append(["R", loc, before.get(loc, "?")])

        _hook[0] = hook
        try:
            out = probe.run(op)
        finally:
            _hook[0] = None
        res.append({"out": out, "acc": log})
    return res


# ------------------------------------------------------- access-level schedule
class AccessScheduler:
    def __init__(self, n, order):
        self.cv = threading.Condition()
        self.order = list(order)
        self.pos = 0
        self.done = [False] * (n + 1)
        self.log = []
        self.mem = dict((loc, val) for loc, val in snapshot())
        self.stuck = False

    def _skip_finished(self):
        while self.pos < len(self.order) and self.done[self.order[self.pos]]:
            self.pos += 1

    def access(self, kind, loc, val, do):
        me = getattr(_tls, "tid", None)
        if me is None:
            do()
            return
        with self.cv:
            deadline = time.time() + 5.0
            while not self.stuck:       # once infeasible: no more waiting, everybody runs freely
                self._skip_finished()
                if self.pos >= len(self.order) or self.order[self.pos] == me:
                    break
                if not self.cv.wait(timeout=0.5) and time.time() > deadline:
                    self.stuck = True
                    break
            do()
            if kind == "W":
                self.mem[loc] = val
                self.log.append({"thr": me, "k": "W", "loc": loc, "val": val})
            else:
                self.log.append({"thr": me, "k": "R", "loc": loc, "val": self.mem.get(loc, "?")})
            if self.pos < len(self.order) and self.order[self.pos] == me:
                self.pos += 1
            self.cv.notify_all()

    def finish(self, me):
        with self.cv:
            self.done[me] = True
            self.cv.notify_all()


def run_access(calls, order):
    n = len(calls)
    init = snapshot()
    sch = AccessScheduler(n, order)
    outs = [None] * n

    def worker(i):
        _tls.tid = i + 1
        try:
            outs[i] = probe.run(calls[i])
        finally:
            sch.finish(i + 1)

    _hook[0] = sch.access
    ts = [threading.Thread(target=worker, args=(i,)) for i in range(n)]
    try:
        for t in ts:
            t.start()
        for t in ts:
            t.join(timeout=30)
    finally:
        _hook[0] = None
    return {"outs": outs, "log": sch.log, "init": init, "stuck": sch.stuck or any(t.is_alive() for t in ts)}


# --------------------------------------------------------- line-level schedule
class LineScheduler:
    """Only one thread runs at a time; at every traced line inside the package a thread
    checks whether its turn (a number of lines) is over and hands over."""

    def __init__(self, n, turns):
        self.cv = threading.Condition()
        self.turns = [list(t) for t in turns]       # [thread, lines]
        self.pos = 0
        self.done = [False] * (n + 1)
        self.lines = [0] * (n + 1)
        self.stuck = False

    def current(self):
        while self.pos < len(self.turns) and (self.done[self.turns[self.pos][0]] or self.turns[self.pos][1] <= 0):
            self.pos += 1
        return self.turns[self.pos][0] if self.pos < len(self.turns) else None

    def line(self, me):
        if self.stuck:              # the schedule proved infeasible: let everybody run freely from here on
            return
        with self.cv:
            deadline = time.time() + 5.0
            while True:
                cur = self.current()
                if cur is None or cur == me:
                    break
                if not self.cv.wait(timeout=0.5) and time.time() > deadline:
                    self.stuck = True
                    break
            self.lines[me] += 1
            if self.current() == me:
                self.turns[self.pos][1] -= 1
            self.cv.notify_all()

    def finish(self, me):
        with self.cv:
            self.done[me] = True
            self.cv.notify_all()


LINE_BUDGET = 4000


def run_lines(calls, turns):
    n = len(calls)
    sch = LineScheduler(n, turns)
    outs = [None] * n

    def tracer_for(me):
        budget = [LINE_BUDGET]

        def local(frame, event, arg):
            if budget[0] <= 0:
                return None
            if event == "line":
                budget[0] -= 1
                if budget[0] <= 0:
                    # a call that runs on and on (building a big table, say): stop scheduling it line by
                    # line, let it and everybody else run freely from here on
                    sch.finish(me)
                    return None
                sch.line(me)
            return local

        def glob(frame, event, arg):
            if budget[0] > 0 and frame.f_code.co_filename.startswith(PKG_PREFIX):
                return local
            return None
        return glob

    def worker(i):
        sys.settrace(tracer_for(i + 1))
        try:
            outs[i] = probe.run(calls[i])
        finally:
            sys.settrace(None)
            sch.finish(i + 1)

    ts = [threading.Thread(target=worker, args=(i,)) for i in range(n)]
    for t in ts:
        t.start()
    for t in ts:
        t.join(timeout=60)
    return {"outs": outs, "lines": sch.lines[1:], "stuck": sch.stuck or any(t.is_alive() for t in ts)}


def count_lines(calls):
    """Number of traced package lines of each call when run alone."""
    res = []
    for op in calls:
        cnt = [0]

        def local(frame, event, arg):
            if event == "line":
                cnt[0] += 1
            return local

        def glob(frame, event, arg):
            return local if frame.f_code.co_filename.startswith(PKG_PREFIX) else None

        sys.settrace(glob)
        try:
            out = probe.run(op)
        finally:
            sys.settrace(None)
        res.append({"out": out, "lines": cnt[0]})
    return res


def classify(calls):
    """Path class of each call: digest of the set of package lines it executes plus the kind of its
    outcome. Only used to CHOOSE menu calls that cover every path (never to judge)."""
    import hashlib
    res = []
    for op in calls:
        lines = set()

        def local(frame, event, arg):
            if event == "line":
                lines.add((frame.f_code.co_filename, frame.f_lineno))
            return local

        def glob(frame, event, arg):
            return local if frame.f_code.co_filename.startswith(PKG_PREFIX) else None

        sys.settrace(glob)
        try:
            out = probe.run(op)
        finally:
            sys.settrace(None)
        kind = [out.get("k"), out.get("ret") if out.get("k") == "ok" else out.get("cls")]
        res.append({"sig": hashlib.sha256(repr(sorted(lines)).encode()).hexdigest()[:12], "kind": repr(kind)})
    return res


_full0 = [None]


def witnesses():
    """Objects created before the history; their projections must never change."""
    from schwifty import BIC, IBAN
    from schwifty.bban import BBAN
    objs = [IBAN("DE89370400440532013000"), IBAN("GB33BUKB20201555555555"), BIC("GENODEM1GLS"),
            BBAN("NO", "86011117947"), IBAN("DE00370400440532013000", allow_invalid=True)]
    return objs


def project(objs):
    out = []
    for o in objs:
        d = [type(o).__name__, str(o), getattr(o, "country_code", "")]
        for n in ("bank_code", "account_code", "branch_code", "formatted"):
            try:
                d.append(getattr(o, n, ""))
            except Exception as e:  # noqa: BLE001
                d.append(type(e).__name__)
        out.append(d)
    return out


def run_history(calls):
    import hashlib
    _props[0] = True
    try:
        objs = witnesses()

        from schwifty import registry as _reg

        def dig():
            # cheap per-call digest (attributes a modification to the call that made it): sizes of
            # all registries and the projections of the witness objects; the complete digest of the
            # registries is taken once per history (census_full)
            sizes = [(str(k), len(v)) for k, v in sorted(regstore.store().items(), key=lambda kv: str(kv[0]))]
            return hashlib.sha256(repr((sizes, project(objs))).encode()).hexdigest()[:16]

        census0 = dig()
        if _full0[0] is None:
            _full0[0] = census_full()          # once per process: the state right after import
        full0 = _full0[0]
        init = snapshot()
        steps = []
        for op, rec in zip(calls, run_solo_with_values_iter(calls)):
            steps.append({"out": rec["out"], "acc": rec["acc"], "census": dig()})
        return {"census0": census0, "steps": steps, "init": init, "full0": full0, "full_end": census_full()}
    finally:
        _props[0] = False


def run_solo_with_values_iter(calls):
    for op in calls:
        yield run_solo_with_values([op])[0]


def in_cold_child(fn):
    """Run one concurrent schedule in a forked child of this (so far call-free) interpreter: every
    schedule starts from the state right after import - lazily built tables, memos and caches are cold,
    so races on their first filling are reachable in every run, not only in the first of a process."""
    import os
    if _warm[0]:                   # this process has already run calls itself: no pristine state to fork
        return fn()
    r, w = os.pipe()
    pid = os.fork()
    if pid == 0:
        code = 0
        try:
            os.close(r)
            data = json.dumps(fn()).encode()
            while data:
                n = os.write(w, data)
                data = data[n:]
        except BaseException:  # noqa: BLE001
            import traceback
            traceback.print_exc()
            code = 3
        finally:
            os._exit(code)
    os.close(w)
    import select
    import signal
    chunks = []
    deadline = time.time() + 240.0
    timed_out = False
    while True:
        left = deadline - time.time()
        if left <= 0 or not select.select([r], [], [], left)[0]:
            timed_out = True          # a run that does not end (threads blocked on each other): give up on it
            os.kill(pid, signal.SIGKILL)
            break
        b = os.read(r, 1 << 16)
        if not b:
            break
        chunks.append(b)
    os.close(r)
    _, status = os.waitpid(pid, 0)
    if timed_out:
        return {"stuck": True, "outs": [], "lines": [], "log": [], "init": []}
    if status != 0 or not chunks:
        raise RuntimeError(f"cold child failed (status {status})")
    return json.loads(b"".join(chunks))


_warm = [False]


def main():
    with open(sys.argv[1]) as fp:
        job = json.load(fp)
    results = []
    for j in job["jobs"]:
        mode = j["mode"]
        if mode not in ("access", "lines"):
            _warm[0] = True
        if mode == "solo":
            init = snapshot()
            results.append({"init": init, "solo": run_solo_with_values(j["calls"])})
        elif mode == "access":
            results.append(in_cold_child(lambda: run_access(j["calls"], j["order"])))
        elif mode == "lines":
            def warm_then_lines(j=j):
                for c in j.get("warm", []):        # an earlier history of the process, before the threads start
                    probe.run(c)
                return run_lines(j["calls"], j["turns"])
            results.append(in_cold_child(warm_then_lines))
        elif mode == "count":
            results.append({"count": count_lines(j["calls"])})
        elif mode == "census":
            results.append({"census": census()})
        elif mode == "classify":
            results.append({"classes": classify(j["calls"])})
        elif mode == "history":
            results.append(run_history(j["calls"]))
        else:
            raise ValueError(mode)
    with open(sys.argv[2], "w") as fp:
        json.dump(results, fp)


if __name__ == "__main__":
    main()
