"""Scratch copies of the package with synthetic registries (outside /repo and /verif)."""
from __future__ import annotations

import json
import shutil
from contextlib import contextmanager
from pathlib import Path

from common import package_dir, scratch_tmp


@contextmanager
def scratch_package(iban_files: dict | None = None, bank_files: dict | None = None, tag: str = "pkg"):
    """Yield (root, pkg): root is to be put on PYTHONPATH, pkg = root/schwifty.
    iban_files / bank_files: {file name: document}; None keeps the tree's own files."""
    root = scratch_tmp(tag)
    try:
        pkg = root / "schwifty"
        ignore = shutil.ignore_patterns("__pycache__", "*.pyc",
                                        *(["iban_registry"] if iban_files is not None else []),
                                        *(["bank_registry"] if bank_files is not None else []))
        shutil.copytree(package_dir(), pkg, ignore=ignore)
        for sub, files in (("iban_registry", iban_files), ("bank_registry", bank_files)):
            if files is None:
                continue
            d = pkg / sub
            d.mkdir()
            for name, doc in files.items():
                with open(d / name, "w", encoding="utf-8") as fp:
                    json.dump(doc, fp)
        yield root, pkg
    finally:
        shutil.rmtree(root, ignore_errors=True)


def country(spec: str, length: int, positions: dict | None = None, cc: str = "", **extra) -> dict:
    d = {"bban_spec": spec, "iban_spec": f"{cc}2!n{spec}", "bban_length": length, "iban_length": length + 4,
         "in_sepa_zone": False}
    if cc:
        d["country"] = cc
    if positions is not None:
        d["positions"] = positions
    d.update(extra)
    return d


SMALL_IBAN_FILES = {
    "generated.json": {
        "BB": country("1!a1!n", 2, {"bank_code": [0, 1], "account_code": [1, 2]}, "BB"),
        "AB": country("2!n", 2, {"bank_code": [0, 1], "account_code": [1, 2]}, "AB"),
        "BA": country("2!n", 2, {"account_code": [0, 2]}, "BA"),
    },
    "overwrite.json": {
        "BA": {"bban_spec": "1!c1!n", "positions": {"bank_code": [0, 1], "account_code": [1, 2]}},
        "AA": country("2n", 2, None, "AA"),
        "A5": country("1!n", 1, None, "A5"),
    },
}

SMALL_BANK_FILES = {
    "banks.json": [
        {"country_code": "BB", "bank_code": "A", "name": "Bank A", "short_name": "A", "bic": "AAAADEAA",
         "primary": True},
    ],
}
