"""Parser for TLA+ values as TLC prints them (state dumps, simulation traces).

Supports: integers, strings, booleans, sequences <<..>>, sets {..}, records
[a |-> 1, ..], functions (a :> 1 @@ b :> 2), model values (bare identifiers).
"""
from __future__ import annotations

import re
from typing import Any, Iterator

_TOKEN = re.compile(r'\s*(?:(<<|>>|\|->|:>|@@|[\[\]{}(),])|(-?\d+)|"((?:[^"\\]|\\.)*)"|([A-Za-z_][A-Za-z0-9_!]*))')


class Func(dict):
    """A TLA+ function with a non-record domain."""


def tokenize(s: str) -> list[tuple[str, Any]]:
    out = []
    pos = 0
    n = len(s)
    while pos < n:
        m = _TOKEN.match(s, pos)
        if not m:
            if s[pos:].strip() == "":
                break
            raise ValueError(f"cannot tokenize at {s[pos:pos + 30]!r}")
        pos = m.end()
        if m.group(1):
            out.append(("p", m.group(1)))
        elif m.group(2) is not None:
            out.append(("i", int(m.group(2))))
        elif m.group(3) is not None:
            out.append(("s", m.group(3).replace('\\"', '"').replace("\\\\", "\\")))
        else:
            out.append(("id", m.group(4)))
    return out


class _P:
    def __init__(self, toks):
        self.t = toks
        self.i = 0

    def peek(self):
        return self.t[self.i] if self.i < len(self.t) else (None, None)

    def take(self, val=None):
        k, v = self.t[self.i]
        if val is not None and v != val:
            raise ValueError(f"expected {val!r}, got {v!r}")
        self.i += 1
        return k, v

    def value(self):
        k, v = self.take()
        if k == "i":
            return v
        if k == "s":
            return v
        if k == "id":
            if v == "TRUE":
                return True
            if v == "FALSE":
                return False
            return v
        if v == "<<":
            items = []
            while self.peek()[1] != ">>":
                items.append(self.value())
                if self.peek()[1] == ",":
                    self.take()
            self.take(">>")
            return items
        if v == "{":
            items = []
            while self.peek()[1] != "}":
                items.append(self.value())
                if self.peek()[1] == ",":
                    self.take()
            self.take("}")
            return items
        if v == "[":
            rec = {}
            while self.peek()[1] != "]":
                _, name = self.take()
                self.take("|->")
                rec[name] = self.value()
                if self.peek()[1] == ",":
                    self.take()
            self.take("]")
            return rec
        if v == "(":
            f = Func()
            while True:
                key = self.value()
                self.take(":>")
                f[_hashable(key)] = self.value()
                if self.peek()[1] == "@@":
                    self.take()
                    continue
                break
            self.take(")")
            return f
        raise ValueError(f"unexpected token {v!r}")


def _hashable(x):
    if isinstance(x, list):
        return tuple(_hashable(y) for y in x)
    return x


def parse_value(s: str):
    p = _P(tokenize(s))
    v = p.value()
    return v


_STATE_HDR = re.compile(r"^State (\d+):")
_VAR = re.compile(r"^/\\ (\w+) = (.*)$")


def parse_dump(path: str) -> Iterator[dict]:
    """States of a `tlc -dump <file>` file: 'State N:' then '/\\ var = value' lines
    (values may span several lines)."""
    cur: dict | None = None
    name = None
    buf: list[str] = []

    def flush():
        nonlocal name, buf
        if cur is not None and name is not None:
            cur[name] = parse_value(" ".join(buf))
        name, buf = None, []

    with open(path) as fp:
        for line in fp:
            line = line.rstrip("\n")
            if _STATE_HDR.match(line):
                flush()
                if cur:
                    yield cur
                cur = {}
                continue
            m = _VAR.match(line)
            if m:
                flush()
                name = m.group(1)
                buf = [m.group(2)]
            elif line.strip() and name is not None:
                buf.append(line.strip())
    flush()
    if cur:
        yield cur
