"""Where the package keeps its loaded registries (runs inside the target interpreter).

At present that is the module-level dict `schwifty.registry._registry`. The name is private, so it is
looked up defensively: by that name, else as whatever module-level dict of `schwifty.registry` maps
"iban" to the country table - a rename must not break the machinery."""
from __future__ import annotations

from schwifty import registry


def store() -> dict:
    d = getattr(registry, "_registry", None)
    if isinstance(d, dict):
        return d
    registry.get("iban")
    for v in vars(registry).values():
        if isinstance(v, dict) and isinstance(v.get("iban"), dict) and "DE" in v["iban"]:
            return v
    raise RuntimeError("cannot find the store of loaded registries in schwifty.registry")
