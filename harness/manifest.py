"""Generates /verif/MANIFEST.json from the table below (single source of truth)."""
from __future__ import annotations

import json
from pathlib import Path

VERIF = Path(__file__).resolve().parent.parent

BASELINE_CMD = ("cd /repo && /venv/bin/python -m pytest -ra -q -p no:cacheprovider --timeout=900 "
                "--continue-on-collection-errors")

TRUSTED = ("Trusted: TLC 1.8 evaluating the TLA+ text; CPython/re/unicodedata; the harness only moves data "
           "(export, record, replay, compare) and never decides a verdict.")

CHECKS = {
    "C01": {
        "technique": "TLA+ spec (Iban/Structure/Mod97/Load) + TLC: exhaustive small-scope model MC_IbanSmall, "
                     "its texts replayed into the real library on the same synthetic table, and trace validation "
                     "(TraceCalls) of wide drivers against the spec-merged real table",
        "text": "TLC explores every text over 8-9 symbols up to length 6 through the stage machine of the validating "
                "call and checks Accept <=> Valid (ISO 13616 over the table), Reject(e) => e names a present defect, "
                "Valid <=> no defect; the same ~7e5 texts are run through the real library on the same synthetic "
                "table (three entry points) and every outcome is validated by TLC; on the real tree the Load "
                "machine composes the raw registry files and TLC validates every country x every position x every "
                "character of an 83..127 character alphabet, every length 0..40, all 100 check-digit pairs, every "
                "two-character prefix and random edits (3e5 / 2e6 calls).",
        "design_ref": "DESIGN.md section 5, C01",
        "note": TRUSTED + " Acceptance of texts containing one of 17 ambiguous-upper-case characters is not judged.",
    },
    "C04": {
        "technique": "TLA+ spec (Bic, Iso3166) + TLC: bounded edit model MC_BicEdits (both modes) replayed into the "
                     "library, and trace validation (TraceCalls) of wide drivers",
        "text": "TLC explores four seed BICs under one wide edit (16 symbols incl. non-ASCII, all country pairs, all "
                "lengths) and two narrow edits, in both compliance modes, through the length/structure/country stage "
                "machine: Accept <=> BicValid, Reject(e) => e present, strict => lenient; the ~4.9e4 submitted texts "
                "x 2 modes x 3 entry points are replayed into the library (count cross-checked with TLC's) and "
                "validated; wide driver: 7 BICs x every position x 83..127 characters, every length 0..14, 900 "
                "country pairs, all registry BICs and corruptions, random edits.",
        "design_ref": "DESIGN.md section 5, C04",
        "note": TRUSTED + " ISO 3166-1 is the literal 249-code set of spec/Iso3166.tla.",
    },
    "C05": {
        "technique": "TLA+ spec (Iban.Defects / Bic.BicDefects, stage machines) + TLC: bounded models MC_IbanSmall and "
                     "MC_BicEdits with invariant Reject(e) => e in Defects, replayed into the library; trace "
                     "validation of multi-defect / non-ASCII drivers incl. constructor-validate-is_valid cross-checks",
        "text": "Specification level: in every state of both bounded models a rejection names a defect that the "
                "(liberal) Defects set contains and Valid <=> Defects = {}; implementation level: all model texts "
                "and ~2e5 (quick) wide events - every country x non-ASCII/control characters at every head position "
                "and class boundary, multi-defect edits, all short texts, both flags - must raise only library "
                "exceptions whose class is in Defects, is_valid must return a bool, and constructor / validate() / "
                "is_valid must agree on every text.",
        "design_ref": "DESIGN.md section 5, C05",
        "note": TRUSTED + " The first failing stage is not demanded, only that the class names a present defect.",
    },
    "C02": {
        "technique": "TLA+ spec (Mod97) + TLC: complete residue model MC_Mod97 (97 residues x 100 digit pairs) and trace "
                     "validation of from_bban / all-100-pairs drivers over every country",
        "text": "Specification level is complete: for every residue of 'BBAN cc' and every pair dd, exactly the "
                "prescribed 98-(r*100 mod 97) is accepted, it lies in 02..98, the aliases 00/01/99 never pass, and "
                "folding on residues is sound (linearity). Implementation level: for all countries x k conforming "
                "BBANs (all-low, all-high, letters, BBANs whose digits are 02/03/97/98, random) IBAN.from_bban must "
                "give the spec's FromBban and be Valid, and of the 100 texts cc dd bban exactly the spec-valid one is "
                "accepted (9e4 / 1.2e6 validated calls).",
        "design_ref": "DESIGN.md section 5, C02",
        "note": TRUSTED + " BBANs are sampled per country (the residue abstraction makes the arithmetic complete, the "
                          "binding of the code to it is by these samples).",
    },
    "C03": {
        "technique": "TLA+ spec + TLC: complete error model MC_Mod97Errors (every decimal place 0..69 x every same-kind "
                     "substitution / adjacent transposition incl. wrap-around) and trace validation of single-error "
                     "drivers over every country",
        "text": "TLC checks all 106,760 single-error shapes an IBAN numeric string of <= 70 places can suffer: the "
                "induced delta is never 0 mod 97. The code is bound to that arithmetic by trace validation: all "
                "countries x n valid IBANs x every position >= 2 x every same-kind replacement and every adjacent "
                "same-kind transposition (8e4 / 6e5 texts) must be rejected, judged by Valid of the spec; a "
                "single-error text accepted by code and spec alike is reported as contradiction of the theorem.",
        "design_ref": "DESIGN.md section 5, C03",
        "note": TRUSTED + " Valid IBANs are sampled per country.",
    },
    "C10": {
        "technique": "TLA+ spec (Text.Clean, Groups4, BicFormatted) + TLC: bounded edit model MC_CleanEdits on the real "
                     "table, every model state replayed into the library (tlc -dump), trace validation of random "
                     "white-space / case variants",
        "text": "TLC explores <= 2 insertions of white space (4-6 kinds, every position) / lower-casings from 10 seed "
                "texts (valid and each defect kind, IBAN and BIC): same clean form, same verdict and defect set, Clean "
                "idempotent, formatted = groups of four / BIC parts and cleans back. All ~7e4 states are replayed: "
                "both texts constructed (validated and not), outcomes, ==, hash, compact and formatted compared by "
                "TLC; plus random variants with all 29 white-space code points (4e3 / 1.6e5 pairs).",
        "design_ref": "DESIGN.md section 5, C10",
        "note": TRUSTED + " Case = ASCII letters only, as the property says.",
    },
    "C11": {
        "technique": "TLA+ spec (Iban.Component/Slice, Bic parts, Load-composed table) + TLC: per-country table model "
                     "MC_Positions and trace validation of full decompositions",
        "text": "MC_Positions: one state per country of the frozen table, ranges inside the BBAN and disjoint. "
                "Trace validation: every country x n accepted IBANs - all eight components via IBAN and via BBAN "
                "accessors, country, check digits, bban, length, formatted, from_bban rebuild (object and str) - and "
                "registry + random BICs (four parts, formatted, type) are each compared by TLC with the slices the "
                "spec computes from the spec-merged table.",
        "design_ref": "DESIGN.md section 5, C11",
        "note": TRUSTED + " 'Published position' means the bundled table; positions edited in the data are C17/C06 "
                          "matters.",
    },
    "C12": {
        "technique": "TLA+ spec (Lookup, Load-composed bank list) + TLC: exhaustive small-registry model MC_Lookup, "
                     "model registries replayed through the library's index builders, trace validation (TraceLookup) "
                     "of lookups over the real registry",
        "text": "MC_Lookup: every bank list of <= 3 entries over 60 entry values (219,661 states); in each, for every "
                "key, the implementation-shaped lookup gives an answer the normative predicates allow (candidates = "
                "non-empty BICs of the key, primaries first; choice 8-char / XXX / first; unlisted empty; "
                "invertible). ~6e3..5e4 model registries are replayed in-process through registry.save/build_index "
                "and 16 queries each. Real registry (bank list composed by the Load machine incl. v2 expansion): "
                "2,500 / all 22,753 keys, unlisted and malformed pairs, 1,200 / all BICs reversed, IBANs around "
                "listed / unlisted banks of every country with banks (bic, bank, names).",
        "design_ref": "DESIGN.md section 5, C12",
        "note": TRUSTED + " Order inside the primary/non-primary groups and which of several generic candidates is "
                          "chosen are deliberately not demanded.",
    },
    "C18": {
        "technique": "TLA+ spec (JsonTree.Merge / EffectiveDict / EffectiveList / ExpandV2, Load machine) + TLC: "
                     "exhaustive MC_Merge and MC_Load, every model pair / directory replayed into merge_dicts and the "
                     "real loader, trace validation (TraceRegistry) of the real tree's registries",
        "text": "MC_Merge: all 144x144 pairs (and 36^3 triples) of dictionaries of depth <= 2: leaves of the result = "
                "later-wins characterisation without recursion, overlay locality, left-fold law (TLC refuted naive "
                "associativity; it holds for type-compatible documents); MC_Load: every directory of <= 3 files, "
                "every listing order. Replay: every pair through registry.merge_dicts (result and unchanged "
                "arguments), every directory (plus v2 documents under 5 names, deep/unicode/null documents) through "
                "registry.get in a scratch copy; the real tree's country table and 29,451-entry bank list must equal "
                "what the Load machine composes from the raw files; an overlay file changes exactly what it names "
                "(validation outcomes follow).",
        "design_ref": "DESIGN.md section 5, C18",
        "note": TRUSTED + " Dictionary key order is not significant; the compiled regex objects the library adds to "
                          "the table are dropped before comparison.",
    },
    "C06": {
        "technique": "TLA+ spec (National: 22 published algorithms on published offsets) + TLC: structured model "
                     "MC_National replayed into the library, spec-as-generator NatGen for the accept side, trace "
                     "validation (TraceNational)",
        "text": "MC_National (22 countries x six spread positions over a reduced value set incl. letters; body as is / "
                "repaired / every single corruption): exactly the prescribed digits validate, repair touches only "
                "the check digits, corruption is detected. All model bodies and 120 / 6,000 random conforming BBANs "
                "per country are given reference-computed digits by TLC (NatGen) and replayed with random digits, "
                "reference digits and single corruptions through IBAN(validate_bban=True), validate(True) and "
                "BBAN.validate_national_checksum (must return True / raise); all other countries with the flag on "
                "must be unaffected; flagged acceptance implies unflagged acceptance.",
        "design_ref": "DESIGN.md section 5, C06 and Appendix B",
        "note": TRUSTED + " The transcription of the published national algorithms is from knowledge of the published "
                          "texts (no copy offline); Norwegian accounts with 00 at digits 5-6 are not judged.",
    },
    "C07": {
        "technique": "TLA+ spec (Bundesbank: 39 published methods, dispatch over the Load-composed registry) + TLC: "
                     "MC_Bundesbank states replayed into algorithms['DE:xx'], trace validation (TraceNational) of "
                     "random / boundary accounts and of German bank codes through the public IBAN API",
        "text": "MC_Bundesbank: 39 methods x all accounts over {0,9} ({0,3,9} thorough) at ten positions, with "
                "transcription sanity invariants (single-check-digit methods accept at most / exactly one digit); "
                "every state is replayed into the method object. Plus per method 60 / 4,000 random accounts x all ten "
                "check-digit values, boundary families (08: 59,980..60,020; 99 and 68 ranges; every leading digit of "
                "24/25/26/61/63/76/88), the 70 official test numbers (checked against the SPEC first), and 600 / "
                "all 3,527 German bank codes x accounts through IBAN(validate_bban=True) with dispatch (unlisted "
                "bank, unimplemented method => accept) decided by the spec over the frozen registry.",
        "design_ref": "DESIGN.md section 5, C07 and Appendix A",
        "note": TRUSTED + " Optional second passes of methods 13/63/76 and remainder 10 of method 76 are not judged.",
    },
    "C17": {
        "technique": "TLA+ spec (DataCheck over the Load-composed registries, Structure, Bic, Lookup) + TLC: one step "
                     "per data entry with total verdicts; trace validation of the follow-through (IBAN around every "
                     "listed bank accepted, bank found again)",
        "text": "Exhaustive over the data of the tree under test: each of the 126 country entries (structure string "
                "describes the BBAN length, IBAN length = +4 <= 34, positions inside and disjoint) and each of the "
                "29,451 bank entries (country in table, BIC empty or valid and clean, bank code empty or fitting "
                "width and classes of the concatenated bank-identifying fields) is judged by TLC; every failing "
                "entry is reported by country / bank key. Then for 3,000 / all listed bank keys a valid IBAN is "
                "built around the key: the library must accept it (TraceCalls) and find the bank again "
                "(TraceLookup).",
        "design_ref": "DESIGN.md section 5, C17",
        "note": TRUSTED + " Which fields a national algorithm needs comes from spec/National.tla (NatNeeds).",
    },
    "C08": {
        "technique": "TLA+ spec (Generate: normative TooLong/CarriesClause + step machine) + TLC: exhaustive MC_Generate "
                     "on four synthetic layouts, all its component triples replayed into from_components/generate on "
                     "a scratch table holding those layouts, trace validation (TraceGenerate) over every real country",
        "text": "MC_Generate: 4 layouts (no branch field / bank+branch+account / no bank field / national digit "
                "field) x every triple of component strings over 2-3 symbols up to field width + 1 through the "
                "pad/split/guard/place machine: overlong => its own class, nothing dropped or changed, raises only "
                "for a reason. All 2.5e4 (quick) triples are replayed into the library on a scratch table. Real "
                "table: every country with positions x conforming / shorter / exactly wide / one-too-long (each "
                "component) / combined bank+branch (with and without branch) / white space, lower case / illegal "
                "characters / wrong classes; unknown and position-less countries.",
        "design_ref": "DESIGN.md section 5, C08",
        "note": TRUSTED + " When nothing is too long, any library error is allowed (e.g. structure violations).",
    },
    "C09": {
        "technique": "TLA+ spec (National.NatCompute/NatOK, Generate, Covered positions) + TLC: MC_National invariant "
                     "'computed digits validate', NatGen as generator, trace validation (TraceGenerate, TraceNational) "
                     "of generate / seeded random / parse-rebuild",
        "text": "Spec level: in every state of MC_National the prescribed digits validate and only they do. "
                "Implementation: for the 19 computing countries 40 / 1,500 generated IBANs (conforming and shorter "
                "components) and 20 / 750 seeded random draws (registry on/off) are re-validated with national "
                "validation and judged by the published algorithm; for every country with positions 15 / 400 "
                "nationally valid IBANs (reference-computed digits from TLC) are parsed, all eight components read "
                "off and BBAN.from_components must reproduce every covered position.",
        "design_ref": "DESIGN.md section 5, C09",
        "note": TRUSTED + " Filler positions (belonging to no component) are computed by the spec from the table.",
    },
    "C13": {
        "technique": "TLA+ spec (MC_Random retry machine over an explicit draw stream; TraceRandom over the "
                     "Load-composed table and bank list) + TLC; reproducibility by re-execution in-process and in "
                     "other processes under other hash seeds",
        "text": "MC_Random: on a synthetic layout with bank/branch/national digit/account, all 16 pinned subsets x "
                "{no, bank-wide, combined-wide} registry bank x every draw stream (<= 3-4 attempts): result valid, "
                "pinned unchanged, registry bank used, overflow only after all tries, never an invalid object. "
                "TraceRandom: every country and the no-country form x seeds x registry on/off x pinned subsets (each "
                "defined component singly, pairs): valid IBAN / conforming BBAN of the requested country, pinned "
                "components unchanged or GenerateRandomOverflowError, registry draws listed; every result is "
                "reproduced with a plain equally seeded Random and in three other processes (PYTHONHASHSEED 1, "
                "4242, random).",
        "design_ref": "DESIGN.md section 5, C13",
        "note": TRUSTED + " The synthetic model is not replayed into the code (it has a synthetic national "
                          "algorithm); the binding is the trace validation on the real data.",
    },
    "C16": {
        "technique": "TLA+ spec (Values: compact-string semantics, copies) + TLC: exhaustive MC_Values over object pairs x "
                     "copy operations x observations, every state replayed on real objects (tlc -dump), trace "
                     "validation (TraceValues) of random object pairs",
        "text": "MC_Values: 13 base objects (IBAN/BIC/BBAN in compact, spaced and lower-case spelling, an unvalidated "
                "invalid IBAN, plain strings) squared, each passed through <= 1-2 of copy / deepcopy / pickle 0,2,5, "
                "observed by cmp (six operators) / hash / dict+set / sort / props: equality is an equivalence, order "
                "total and consistent, copies the same value. All ~2e4 observation states are replayed on real "
                "objects; plus 6e3 / 1.2e5 random pairs from a population of valid and unvalidated IBANs of all "
                "countries, their BBANs, registry BICs and plain strings with pickle protocols 0-5.",
        "design_ref": "DESIGN.md section 5, C16",
        "note": TRUSTED + " Hash agreement is demanded for equal objects only.",
    },
    "C14": {
        "technique": "TLA+ spec (Threads: all interleavings of recorded solo access sequences over a common memory; "
                     "TraceThreads) + TLC; racy and sampled schedules replayed in the real code under a deterministic "
                     "scheduler; bounded-preemption line-level runs",
        "text": "Every call of a menu (39 German methods x 4 accounts, German IBANs per registry method, national "
                "algorithms, validation / generation / lookup / seeded random calls) is run alone with an access "
                "recorder attached to schwifty.checksum.Algorithm; for all pairs routed to the same algorithm object, "
                "sampled pairs on different objects and triples, TLC explores EVERY interleaving of the accesses to "
                "locations some thread writes; each interleaving in which a read can return a non-solo value is "
                "replayed in the real code (threads parked at every access, one runnable at a time) and the recorded "
                "run is validated by TraceThreads (memory semantics, outcome = solo); so are random complete "
                "schedules and line-granularity runs with <= 2 preemptions. An engine self-check shows the model "
                "finds the A:W,B:W,A:R scratch race and is quiet for thread-confined scratch.",
        "design_ref": "DESIGN.md section 5, C14",
        "note": TRUSTED + " Exhaustive at shared-access granularity for what the recorder sees; line granularity is "
                          "sampled with bounded preemption; the scheduler serialises threads.",
    },
    "C15": {
        "technique": "TLA+ spec (History: sequential composition of solo access sequences over one scratch memory; "
                     "TraceHistory) + TLC; every model history executed in the real code against first-call-in-a-"
                     "fresh-process outcomes and registry / object digests",
        "text": "Menu of 50 calls (validation ok / each error class incl. national failures, generation ok / failing, "
                "seeded random, lookups hit / miss, German methods that park scratch, copies). TLC enumerates every "
                "history of <= 2 calls over the menu and <= 3 over a 12-call sub-menu over one scratch memory "
                "(thread-local scratch is made visible to the recorder): no read sees a value other than solo. All "
                "those histories (all pairs, all / sampled triples) and long random ones (20-200 calls) are executed "
                "in the real library: after every call the outcome must equal the outcome of that call as the first "
                "call of a fresh interpreter and the digest of registries and previously created objects must equal "
                "the post-import digest (validated by TraceHistory).",
        "design_ref": "DESIGN.md section 5, C15",
        "note": TRUSTED + " Registry immutability is observed through a structural digest (sampled entries) and "
                          "witness objects; histories are sequences over the fixed menu.",
    },
}

NOT_YET = {
}


CHOSEN_BY_COVERAGE = ("C01", "C04", "C05", "C06", "C07", "C08", "C11", "C12")
PATH_CLASSES = ("C14", "C15")


def build() -> dict:
    for pid in CHOSEN_BY_COVERAGE:
        CHECKS[pid]["text"] += (" In addition a coverage-guided chooser (harness/fuzz_probe.py) mutates a sample of "
                                "these calls inside the target interpreter and keeps every mutant that takes a new "
                                "line transition of the package; the kept calls are executed and validated by TLC "
                                "like all others (the chooser never judges).")
    for pid in PATH_CLASSES:
        CHECKS[pid]["text"] += (" The accounts offered to each Bundesbank method are one per path class (distinct set "
                                "of executed package lines and outcome kind) plus an ordinary and a special-case "
                                "account chosen independently of the code under test.")
    checks = []
    for pid, c in sorted(CHECKS.items()):
        checks.append({
            "property_id": pid,
            "quick_cmd": f"./check {pid} quick",
            "thorough_cmd": f"./check {pid} thorough",
            "evidence_file": f"/verif/evidence/{pid}.json",
            "replay_cmd_template": f"./check {pid} --replay {{path}}",
            "engine": "tlc",
            "level_claimed": {"category": "model_checking", "text": c["text"], "design_ref": c["design_ref"]},
            "level_note": c["note"],
            "technique": c["technique"],
        })
    props = [json.loads(line)["id"] for line in open(VERIF / "properties.jsonl")]
    na = [{"property_id": p, "reason": NOT_YET.get(p, "check not built yet (work in progress; planned as model_checking, see DESIGN.md section 5)")}
          for p in props if p not in CHECKS]
    return {
        "version": 1,
        "setup_cmd": "./setup.sh",
        "hooks": {
            "guard": "SCHWIFTY_VERIF",
            "enable": "no source hooks are needed: instrumentation is attached by the harness at run time "
                      "(recording Random subclass, access recorder on schwifty.checksum.Algorithm, scheduler); "
                      "the guard name is reserved and unused",
            "baseline_off_cmd": BASELINE_CMD,
            "source_commits": [],
            "add_only": True,
        },
        "engines": [
            {"name": "tlc", "path": "/verif/spec", "serves_properties": sorted(CHECKS),
             "kind_free_text": "explicit TLA+ specification (spec/*.tla) checked by TLC: bounded models (MC_*), "
                               "the Load state machine composing the raw registry files, and trace specifications "
                               "(Trace*) validating recorded executions of the real library; spec behaviours are "
                               "replayed into the code by harness/checks/*.py"},
        ],
        "checks": checks,
        "not_applicable": na,
        "notes": "All checks: ./check <id> quick|thorough. Exit 0 held / 1 violation (VIOLATION line) / 2 machinery "
                 "failure. Known findings: /verif/known_findings.json.",
    }


if __name__ == "__main__":
    m = build()
    with open(VERIF / "MANIFEST.json", "w") as fp:
        json.dump(m, fp, indent=1)
    print("claimed:", [c["property_id"] for c in m["checks"]])
