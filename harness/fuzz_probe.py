"""Runs inside the target interpreter: a small coverage-guided INPUT CHOOSER.

It never judges anything.  Starting from seed calls it mutates their arguments, runs each mutant
through the probe with line tracing of the package switched on, and keeps a call whenever it takes a
transition between two source lines of the package (or ends in a kind of outcome on such a path)
that no earlier call has taken.  The calls kept are the corpus: inputs that reach every branch the
tree under test has - including branches a change has just introduced (a fast path, a special case,
an exception handler).  The corpus is then executed normally and every event is judged by TLC
against the trace specification, like any other recorded call.

usage: fuzz_probe.py IN.json OUT.json
IN : {"seeds": [call, ...], "execs": N, "rng": int, "methods": [ids]}
OUT: {"corpus": [call, ...], "execs": N, "edges": M}
"""
from __future__ import annotations

import json
import os
import random
import sys

import gen
import probe
import probe_ext  # noqa: F401  (registers the further handlers with probe.HANDLERS)

PKG_PREFIX = os.path.dirname(os.path.abspath(sys.modules["schwifty"].__file__)) + os.sep

TEXT_KEYS = ("t", "u", "bank", "branch", "acct", "cc", "bban", "code", "bic", "account", "country")
BOOL_KEYS = ("vb", "strict", "ai", "use_registry")
SIBLINGS = [("iban.new", "iban.validate", "iban.is_valid"), ("bic.new", "bic.validate", "bic.is_valid"),
            ("iban.generate", "bban.from_components"), ("iban.random", "bban.random")]
INTERESTING = [48, 49, 57, 65, 73, 79, 90, 97, 122, 32, 9, 160, 0x660, 0xFF11, 0xC4, 0xDF, 0x131, 0x212A, 45, 0]


def mutate_text(t: list[int], rng: random.Random, pool: list[list[int]]) -> list[int]:
    t = list(t)
    k = rng.randrange(12)
    n = len(t)
    if k == 0 and n:
        t[rng.randrange(n)] = rng.choice(gen.ALNUM.encode())
    elif k == 1 and n:                       # same kind of character
        p = rng.randrange(n)
        c = t[p]
        t[p] = ord(rng.choice(gen.DIGITS)) if 48 <= c <= 57 else (ord(rng.choice(gen.UPPER)) if 65 <= c <= 90 else c)
    elif k == 2 and n:
        t[rng.randrange(n)] = rng.choice(INTERESTING)
    elif k == 3:
        t.insert(rng.randrange(n + 1), rng.choice(gen.ALNUM.encode()))
    elif k == 4 and n:
        del t[rng.randrange(n)]
    elif k == 5 and n > 1:
        p = rng.randrange(n - 1)
        t[p], t[p + 1] = t[p + 1], t[p]
    elif k == 6 and n > 3:                   # copy a slice of the text over another place (echo)
        a = rng.randrange(n - 1)
        ln = rng.randrange(1, min(5, n - a) + 1)
        b = rng.randrange(n - ln + 1)
        t[b:b + ln] = t[a:a + ln]
    elif k == 7 and n:                       # a run of one character
        a = rng.randrange(n)
        ln = rng.randrange(1, n - a + 1)
        t[a:a + ln] = [rng.choice([48, 57, 65, 90, 49])] * ln
    elif k == 8 and n:                       # letters where digits stood, digits where letters stood
        a = rng.randrange(n)
        ln = rng.randrange(1, min(6, n - a) + 1)
        for p in range(a, a + ln):
            c = t[p]
            t[p] = ord(rng.choice(gen.UPPER)) if 48 <= c <= 57 else (ord(rng.choice(gen.DIGITS)) if 65 <= c <= 90 else c)
    elif k == 9 and pool:                    # the same argument of another call
        t = list(rng.choice(pool))
    elif k == 10 and pool and n:             # cross over with the same argument of another call
        o = rng.choice(pool)
        p = rng.randrange(n)
        t = t[:p] + list(o[p:])
    elif n:
        p = rng.randrange(n)
        c = t[p]
        t[p] = c + 32 if 65 <= c <= 90 else (c - 32 if 97 <= c <= 122 else c)
    return t


def fix_iso(t: list[int]) -> list[int]:
    """Aim at the accept side: put the ISO check digits a text of this shape prescribes."""
    if len(t) < 5:
        return t
    s = "".join(chr(c) for c in t)
    cc, b = s[:2].upper(), s[4:].upper()
    if cc.isascii() and cc.isalpha() and b.isascii() and b.isalnum():
        return [ord(c) for c in cc + gen.check_digits(cc, b) + s[4:]]
    return t


ALLOWED_OPS: set = set()


def mutate(op: dict, rng: random.Random, corpus: list[dict], methods: list[str]) -> dict:
    op = json.loads(json.dumps(op))
    for _ in range(rng.choice((1, 1, 1, 2, 3))):
        keys = [k for k in op if k in TEXT_KEYS and isinstance(op[k], list)]
        r = rng.random()
        if r < 0.08:
            bk = [k for k in BOOL_KEYS if k in op]
            if bk:
                k = rng.choice(bk)
                op[k] = not op[k]
                continue
        if r < 0.12:
            for sib in SIBLINGS:
                if op["op"] in sib:       # only entry points the seed calls themselves use
                    op["op"] = rng.choice([x for x in sib if x in ALLOWED_OPS] or [op["op"]])
            continue
        if r < 0.16 and "method" in op and methods:
            op["method"] = rng.choice(methods)
            continue
        if r < 0.2 and "seed" in op:
            op["seed"] = rng.randrange(10 ** 6)
            continue
        if keys:
            k = rng.choice(keys)
            pool = [c[k] for c in rng.sample(corpus, min(4, len(corpus))) if isinstance(c.get(k), list)]
            op[k] = mutate_text(op[k], rng, pool)
    if op["op"].startswith("iban.") and isinstance(op.get("t"), list) and rng.random() < 0.65:
        op["t"] = fix_iso(op["t"])
    return op


def run_traced(op: dict, edges: set) -> tuple[dict, int]:
    """Run one call with line tracing; returns (outcome, number of transitions new to `edges`)."""
    seen = []
    prev = [None]

    def local(frame, event, arg):
        if event == "line":
            cur = (frame.f_code.co_filename, frame.f_lineno)
            seen.append((prev[0], cur))
            prev[0] = cur
        return local

    def glob(frame, event, arg):
        return local if frame.f_code.co_filename.startswith(PKG_PREFIX) else None

    sys.settrace(glob)
    try:
        out = probe.run(op)
    finally:
        sys.settrace(None)
    kind = (out.get("k"), out.get("cls"), out.get("ret") if isinstance(out.get("ret"), bool) else None)
    seen.append((prev[0], ("outcome", op["op"], kind)))
    new = 0
    for e in seen:
        if e not in edges:
            edges.add(e)
            new += 1
    return out, new


def main():
    with open(sys.argv[1]) as fp:
        job = json.load(fp)
    rng = random.Random(job["rng"])
    methods = job.get("methods", [])
    ALLOWED_OPS.update(o["op"] for o in job["seeds"])
    ALLOWED_OPS.update(job.get("ops", []))
    edges: set = set()
    corpus = []
    execs = 0
    for op in job["seeds"]:
        _, new = run_traced(op, edges)
        execs += 1
        if new:
            corpus.append(op)
    if not corpus:
        corpus = list(job["seeds"][:1])
    kept = []
    while execs < job["execs"]:
        # favour recently found calls: they sit next to unexplored branches
        base = rng.choice(corpus[-20:]) if rng.random() < 0.4 else rng.choice(corpus)
        cand = mutate(base, rng, corpus, methods)
        try:
            _, new = run_traced(cand, edges)
        except Exception:  # noqa: BLE001  (a probe failure is the harness' business, not a finding here)
            new = 0
        execs += 1
        if new:
            corpus.append(cand)
            kept.append(cand)
    with open(sys.argv[2], "w") as fp:
        json.dump({"corpus": kept, "execs": execs, "edges": len(edges)}, fp)


if __name__ == "__main__":
    main()
