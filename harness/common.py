"""Shared plumbing: paths, scratch directories, subprocess helpers."""
from __future__ import annotations

import json
import os
import shutil
import subprocess
import sys
import tempfile
import time
from pathlib import Path

VERIF = Path(__file__).resolve().parent.parent
SPEC = VERIF / "spec"
HARNESS = VERIF / "harness"
EVIDENCE = VERIF / "evidence"
REPLAYS = VERIF / "replays"
WORK = VERIF / "work"
REPO = Path(os.environ.get("VERIF_REPO", "/repo"))
if REPO.resolve() != Path("/repo"):
    # self-test on a scratch copy of the repository: its evidence and replay files must not replace
    # the ones that describe /repo itself
    EVIDENCE = WORK / "selftest-evidence"
    REPLAYS = WORK / "selftest-replays"
PYTHON = os.environ.get("VERIF_PYTHON", "/venv/bin/python")
NCPU = max(1, min(16, os.cpu_count() or 1))


class MachineryError(Exception):
    """The check itself failed (TLC crashed, trace not consumed, ...): exit 2."""


def seed() -> int:
    try:
        return int(os.environ.get("VERIF_SEED", "0"))
    except ValueError:
        return 0


def workdir(tag: str) -> Path:
    WORK.mkdir(parents=True, exist_ok=True)
    d = WORK / f"{tag}-{os.getpid()}-{int(time.time() * 1000) % 100000}"
    if d.exists():
        shutil.rmtree(d)
    d.mkdir(parents=True)
    return d


def cleanup(d: Path) -> None:
    shutil.rmtree(d, ignore_errors=True)


def scratch_tmp(tag: str) -> Path:
    """A scratch directory outside /repo and /verif (package copies live here)."""
    return Path(tempfile.mkdtemp(prefix=f"verif-{tag}-"))


def package_dir() -> Path:
    return REPO / "schwifty"


def py_env(extra_path: Path | None = None, hashseed: str = "0") -> dict:
    env = dict(os.environ)
    env["PYTHONHASHSEED"] = hashseed
    env["PYTHONDONTWRITEBYTECODE"] = "1"
    paths = [str(HARNESS)]
    if extra_path is not None:
        paths.insert(0, str(extra_path))
    elif REPO != Path("/repo"):
        paths.insert(0, str(REPO))
    env["PYTHONPATH"] = os.pathsep.join(paths)
    return env


def run_probe(ops_path: Path, out_path: Path, extra_path: Path | None = None, hashseed: str = "0",
              timeout: int = 3600) -> None:
    """Run harness/probe.py (the only code that touches schwifty) in a fresh process."""
    cmd = [PYTHON, str(HARNESS / "probe.py"), str(ops_path), str(out_path)]
    r = subprocess.run(cmd, env=py_env(extra_path, hashseed), capture_output=True, text=True, timeout=timeout)
    if r.returncode != 0:
        raise MachineryError(f"probe failed ({r.returncode}): {r.stderr[-2000:]}")


def run_probes_parallel(op_lists: list[list], wd: Path, tag: str, extra_path: Path | None = None) -> list[list]:
    """Run several op batches in parallel probes; returns the outcome lists."""
    procs = []
    for n, ops in enumerate(op_lists):
        ip = wd / f"{tag}-ops-{n}.json"
        op = wd / f"{tag}-out-{n}.json"
        with open(ip, "w") as fp:
            json.dump(ops, fp)
        cmd = [PYTHON, str(HARNESS / "probe.py"), str(ip), str(op)]
        procs.append((subprocess.Popen(cmd, env=py_env(extra_path), stdout=subprocess.PIPE,
                                       stderr=subprocess.PIPE, text=True), op))
    outs = []
    for p, op in procs:
        try:
            _, err = p.communicate(timeout=3600)
        except subprocess.TimeoutExpired:
            for q, _ in procs:
                q.kill()
            raise MachineryError("probe did not finish within an hour (a call that never returns?)")
        if p.returncode != 0:
            raise MachineryError(f"probe failed ({p.returncode}): {err[-2000:]}")
        with open(op) as fp:
            outs.append(json.load(fp))
    return outs


def chunks(seq: list, n: int) -> list[list]:
    n = max(1, n)
    k = (len(seq) + n - 1) // n if seq else 1
    return [seq[i:i + k] for i in range(0, len(seq), k)] or [[]]


def cps(s: str) -> list[int]:
    return [ord(c) for c in s]


def text(cp: list[int]) -> str:
    return "".join(chr(c) for c in cp)


def log(*a) -> None:
    print(*a, file=sys.stderr, flush=True)
