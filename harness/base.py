"""Check runner: context, frozen-registry preparation, violations, evidence, exit codes."""
from __future__ import annotations

import json
import os
import shutil
import sys
import time
import traceback
from dataclasses import dataclass, field
from pathlib import Path

import export
import tlc
from common import (EVIDENCE, NCPU, REPLAYS, REPO, SPEC, VERIF, MachineryError, cleanup, log, package_dir, seed,
                    workdir)

FINDINGS_FILE = VERIF / "known_findings.json"


@dataclass
class Violation:
    prop: str
    clause: str
    key: dict            # what identifies this failure (compared with known findings)
    detail: dict         # the failing input / schedule / history, for the replay file

    def describe(self) -> str:
        return f"{self.clause} {json.dumps(self.key, sort_keys=True)}"


@dataclass
class Ctx:
    prop: str
    tier: str
    seed: int
    wd: Path
    replay: Path | None = None
    violations: list = field(default_factory=list)
    coverage: dict = field(default_factory=dict)
    assumptions: list = field(default_factory=list)
    states: int = 0
    transitions: int = 0
    traces: int = 0
    evaluations: int = 0
    samples: list = field(default_factory=list)
    models: list = field(default_factory=list)
    _frozen: dict | None = None

    @property
    def quick(self) -> bool:
        return self.tier == "quick"

    # ------------------------------------------------------------ bookkeeping
    def add_model(self, name: str, res: tlc.TlcResult, note: str = "") -> None:
        self.states += res.distinct
        self.transitions += res.states
        self.models.append({"model": name, "distinct_states": res.distinct, "states_generated": res.states,
                            "depth": res.depth, "wall_s": round(res.wall, 1), "note": note,
                            "actions": {k: v[1] for k, v in res.coverage.items()} if res.coverage else {}})

    def add_trace_results(self, results: list[tlc.TlcResult], n_events: int, name: str) -> None:
        for r in results:
            self.states += r.distinct
            self.transitions += r.states
        self.traces += len(results)
        self.evaluations += n_events
        self.models.append({"trace_spec": name, "events": n_events, "shards": len(results),
                            "wall_s": round(max((r.wall for r in results), default=0), 1)})

    def violate(self, clause: str, key: dict, detail: dict) -> None:
        self.violations.append(Violation(self.prop, clause, key, detail))

    # ------------------------------------------------------- frozen registry
    def frozen(self, banks: bool = False, pkg: Path | None = None, tag: str = "real") -> dict:
        """Export the raw registry files of the tree under test and let the Load
        machine (spec/Load.tla) compose them.  Returns env for Ready-phase specs."""
        cache_key = (banks, str(pkg), tag)
        if self._frozen is None:
            self._frozen = {}
        if cache_key in self._frozen:
            return self._frozen[cache_key]
        pkg = pkg or package_dir()
        out = self.wd / f"frozen-{tag}{'-b' if banks else ''}"
        out.mkdir(parents=True, exist_ok=True)
        raw = export.export_registry(pkg, out) if banks else export_iban_only(pkg, out)
        env = {"VERIF_IBAN_FILES": raw["iban"], "VERIF_BANK_FILES": raw["bank"],
               "VERIF_OUT_TABLE": out / "table.json", "VERIF_OUT_BANKS": out / "banks.json",
               "VERIF_OUT_TREES": out / "trees.json"}
        cfg = tlc.write_cfg(out / "load.cfg", ["SPECIFICATION Spec", "CHECK_DEADLOCK FALSE",
                                               "PROPERTY FrozenIsFinal", "PROPERTY Monotone"])
        res = tlc.run_tlc("Load", cfg, out / "meta", env=env, workers=1, heap="8g")
        tlc.require_clean(res, "Load machine")
        self.add_model("Load (load phase of the tree under test)", res,
                       f"{res.distinct} load states; banks={'yes' if banks else 'no'}")
        fe = {"VERIF_TABLE": str(out / "table.json"), "VERIF_BANKS": str(out / "banks.json"),
              "VERIF_TREES": str(out / "trees.json"), "VERIF_IBAN_FILES": str(raw["iban"]),
              "VERIF_BANK_FILES": str(raw["bank"])}
        self._frozen[cache_key] = fe
        return fe

    def table(self, env: dict) -> list:
        with open(env["VERIF_TABLE"]) as fp:
            return json.load(fp)


def export_iban_only(pkg: Path, out: Path) -> dict:
    data = export.export_dir(pkg / "iban_registry")
    p = out / "iban_files.json"
    with open(p, "w") as fp:
        json.dump(data, fp)
    q = out / "bank_files.json"
    with open(q, "w") as fp:
        json.dump({"files": []}, fp)
    return {"iban": p, "bank": q}


# ------------------------------------------------------------------ findings
def load_findings() -> list:
    if FINDINGS_FILE.exists():
        with open(FINDINGS_FILE) as fp:
            return json.load(fp)
    return []


def match_known(v: Violation, findings: list) -> dict | None:
    for f in findings:
        if f.get("status") != "known" or f.get("property") != v.prop:
            continue
        if f.get("clause") not in (None, v.clause):
            continue
        if all(v.key.get(k) == val for k, val in f.get("key", {}).items()):
            return f
    return None


# ------------------------------------------------------------------ evidence
def write_evidence(ctx: Ctx, wall: float, n_viol: int, rule: str, distinct_nontrivial: int,
                   exhaustive: bool = False, extra: dict | None = None) -> None:
    EVIDENCE.mkdir(parents=True, exist_ok=True)
    cov = {
        "states": max(ctx.states, 0),
        "transitions": max(ctx.transitions, 0),
        "traces_validated_against_impl": ctx.traces,
        "samples": ctx.samples[:8] or ["(none)"],
        "evaluations": ctx.evaluations,
        "distinct_nontrivial": distinct_nontrivial,
        "rule": rule,
        "exhaustive": exhaustive,
        "models": ctx.models,
        "checker_cmd": "java -cp tla2tools.jar tlc2.TLC (see harness/tlc.py)",
    }
    cov.update(ctx.coverage)
    if extra:
        cov.update(extra)
    ev = {"property_id": ctx.prop, "tier": ctx.tier, "seed": ctx.seed, "level": "model_checking",
          "coverage": cov, "assumptions": ctx.assumptions, "wall_s": round(wall, 2), "violations": n_viol}
    with open(EVIDENCE / f"{ctx.prop}.json", "w") as fp:
        json.dump(ev, fp, indent=1, ensure_ascii=True, default=str)


# -------------------------------------------------------------------- runner
def main(argv: list[str]) -> int:
    if len(argv) < 2:
        print("usage: check <Cxx> quick|thorough | check <Cxx> --replay <path>")
        return 2
    prop = argv[0].upper()
    replay = None
    tier = os.environ.get("VERIF_TIER", "quick")
    if argv[1] == "--replay":
        replay = Path(argv[2])
        tier = "quick"
    else:
        tier = argv[1]
    if tier not in ("quick", "thorough"):
        print("tier must be quick or thorough")
        return 2
    sys.path.insert(0, str(Path(__file__).parent / "checks"))
    try:
        mod = __import__(prop.lower())
    except ImportError as e:
        print(f"no check for {prop}: {e}")
        return 2
    wd = workdir(prop)
    ctx = Ctx(prop=prop, tier=tier, seed=seed(), wd=wd, replay=replay)
    t0 = time.time()
    keep = False
    try:
        info = mod.run(ctx) or {}
        wall = time.time() - t0
        findings = load_findings()
        unknown, known = [], []
        for v in ctx.violations:
            f = match_known(v, findings)
            (known if f else unknown).append((v, f))
        seen = set()
        for v, f in known:
            tag = json.dumps(f.get("key", {}), sort_keys=True)
            if tag in seen:
                continue
            seen.add(tag)
            print(f"KNOWN-FINDING: property={prop} {f.get('what', v.describe())}")
        if replay is None:
            write_evidence(ctx, wall, len(unknown), info.get("rule", ""), info.get("distinct_nontrivial", 0),
                           info.get("exhaustive", False),
                           {"known_findings_reobserved": len(seen), **info.get("extra", {})})
        if unknown:
            REPLAYS.mkdir(parents=True, exist_ok=True)
            rp = REPLAYS / f"{prop}-{tier}-{ctx.seed}.json"
            with open(rp, "w") as fp:
                json.dump({"property": prop, "violations": [
                    {"clause": v.clause, "key": v.key, "detail": v.detail} for v, _ in unknown[:200]]},
                    fp, indent=1, default=str)
            groups = {}
            for v, _ in unknown:
                g = json.dumps(v.key, sort_keys=True)
                groups.setdefault(g, []).append(v)
            for g, vs in sorted(groups.items(), key=lambda kv: -len(kv[1]))[:25]:
                log(f"  {len(vs):6d} x {g}  e.g. {json.dumps(vs[0].detail, default=str)[:260]}")
            print(f"VIOLATION property={prop} replay={rp}")
            return 1
        print(f"OK property={prop} tier={tier} states={ctx.states} evaluations={ctx.evaluations} "
              f"traces={ctx.traces} wall={wall:.1f}s")
        return 0
    except MachineryError as e:
        keep = True
        log(f"MACHINERY FAILURE in {prop}: {e}")
        return 2
    except Exception:  # noqa: BLE001
        keep = True
        log("MACHINERY FAILURE (unexpected):\n" + traceback.format_exc())
        return 2
    finally:
        if not keep or os.environ.get("VERIF_KEEP") != "1":
            if os.environ.get("VERIF_KEEP") != "1":
                cleanup(wd)


if __name__ == "__main__":
    sys.exit(main(sys.argv[1:]))
