"""Harness side of the coverage-guided input chooser (see fuzz_probe.py): runs NCPU chooser processes
over shares of the seed calls with different random seeds and returns the union of their corpora.
The corpus is INPUT only - callers execute it through the ordinary probe and let TLC judge the events."""
from __future__ import annotations

import json
import subprocess

from base import Ctx
from common import HARNESS, NCPU, PYTHON, MachineryError, py_env


def corpus(ctx: Ctx, seeds: list[dict], execs: int, tag: str, methods: list[str] | None = None,
           extra_path=None) -> list[dict]:
    if not seeds:
        return []
    procs = []
    for n in range(NCPU):
        share = seeds[n::NCPU] or seeds[:1]
        ip = ctx.wd / f"{tag}-fuzz-in-{n}.json"
        op = ctx.wd / f"{tag}-fuzz-out-{n}.json"
        ip.write_text(json.dumps({"seeds": share, "execs": execs, "rng": ctx.seed * 1000 + n, "methods": methods or [],
                                  "ops": sorted({o["op"] for o in seeds})}))
        procs.append((subprocess.Popen([PYTHON, str(HARNESS / "fuzz_probe.py"), str(ip), str(op)], env=py_env(extra_path),
                                       stdout=subprocess.PIPE, stderr=subprocess.PIPE, text=True), op))
    out, seen = [], set()
    execs_done = edges = 0
    for p, op in procs:
        _, err = p.communicate()
        if p.returncode != 0:
            raise MachineryError("fuzz_probe failed: " + err[-1500:])
        res = json.loads(op.read_text())
        execs_done += res["execs"]
        edges = max(edges, res["edges"])
        for c in res["corpus"]:
            key = json.dumps(c, sort_keys=True)
            if key not in seen:
                seen.add(key)
                out.append(c)
    cov = ctx.coverage.setdefault("coverage_guided_inputs", {})
    cov[tag] = {"calls_tried": execs_done, "kept_for_new_transitions": len(out), "line_transitions_seen": edges}
    return out


def extend(ctx: Ctx, ops: list[dict], tag: str, n_seeds: int = 1600, quick: int = 4000, thorough: int = 150000,
           methods: list[str] | None = None, accept=None, extra_path=None) -> list[dict]:
    """ops + the coverage-chosen mutants of a sample of them (sampled reproducibly from ctx.seed)."""
    import random
    pool = [o for o in ops if accept is None or accept(o)]
    rng = random.Random(ctx.seed * 7919 + len(pool))
    seeds = rng.sample(pool, min(len(pool), n_seeds))
    return ops + corpus(ctx, seeds, quick if ctx.quick else thorough, tag, methods, extra_path)
