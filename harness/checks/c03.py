"""C03 - every single typing error in a valid IBAN is detected."""
from __future__ import annotations

import random

import calls
import gen
import tlc
from base import Ctx
from common import SPEC, MachineryError, cps, text

CLAUSES = {"accepted-but-invalid", "rejected-but-valid", "object-answers-differently-when-asked-again"}


def model(ctx: Ctx) -> None:
    cfg = ctx.wd / "MC_Mod97Errors.cfg"
    cfg.write_text((SPEC / "MC_Mod97Errors.cfg").read_text())
    res = tlc.run_tlc("MC_Mod97Errors", cfg, ctx.wd / "meta-m97e", workers=8, heap="4g")
    if res.violated:
        raise MachineryError(f"MC_Mod97Errors: invariant {res.violated} violated\n" + res.out[-2000:])
    tlc.require_clean(res, "MC_Mod97Errors")
    if res.distinct != 106760:
        raise MachineryError(f"MC_Mod97Errors: expected the complete error space (106760), got {res.distinct}")
    ctx.add_model("MC_Mod97Errors (complete: every decimal place 0..69 x every same-kind substitution and adjacent "
                  "transposition incl. the wrap-around pair)", res)


def run(ctx: Ctx) -> dict:
    env = ctx.frozen(banks=False)
    if ctx.replay:
        calls.replay(ctx, "TraceCalls", env, CLAUSES)
        return {}
    model(ctx)
    table = ctx.table(env)
    rng = random.Random(ctx.seed + 3)
    n = 2 if ctx.quick else 40
    ops = []
    seeds = 0
    import c06
    by_cc = {}
    for iban in c06.national_valid_ibans(ctx, {gen.cc_of(r): r for r in table}, rng, n, "c03"):
        by_cc.setdefault(iban[:2], []).append(iban)
    for row in table:
        if gen.row_classes(row) is None:
            continue
        # class-wise random valid IBANs, and (where a national algorithm exists) nationally valid ones:
        # the IBANs that occur in practice
        pool = [gen.valid_iban(row, rng, "letters" if k == 1 else "random") for k in range(n)]
        pool += by_cc.get(gen.cc_of(row), [])
        # zero-padded numbers with one or two significant characters (long zero runs)
        pool += [gen.valid_iban(row, rng, "sparse") for _ in range(1 if ctx.quick else 6)]
        for iban in pool:
            seeds += 1
            ops.append({"op": "iban.new", "t": cps(iban), "vb": False, "err": "none"})
            for p in range(2, len(iban)):
                for alt in gen.same_kind_alternatives(iban[p]):
                    # through the constructor, validate() and is_valid (the last two ask the object twice)
                    op = {"op": ("iban.new", "iban.new", "iban.validate", "iban.is_valid")[(p + ord(alt)) % 4],
                          "t": cps(iban[:p] + alt + iban[p + 1:]), "vb": False, "err": "substitute"}
                    if op["op"] == "iban.new" and (p + ord(alt)) % 3 == 0:
                        op["wrap"] = "object"      # held as an unvalidated IBAN object (also a str)
                    ops.append(op)
            for p in range(2, len(iban) - 1):
                a, b = iban[p], iban[p + 1]
                if a != b and ((a.isdigit() and b.isdigit()) or (a.isalpha() and b.isalpha())):
                    ops.append({"op": "iban.new", "t": cps(iban[:p] + b + a + iban[p + 2:]), "vb": False,
                                "err": "transpose"})
    # the guarantee does not depend on what was asked before: a call that fails half-way (a separator or
    # a non-alphabetic sign inside the number, reaching the digit conversion before the structure check)
    # is followed at once by a mistyped IBAN - state left behind by the failure must not let it through
    hist_rows = [r for r in table if gen.row_classes(r) is not None]
    rng.shuffle(hist_rows)
    after_failure = 0
    for row in hist_rows[:6 if ctx.quick else 40]:
        iban = gen.valid_iban(row, rng)
        cc, bban = iban[:2], iban[4:]
        typos = []
        for p in range(4, len(iban)):
            alts = gen.same_kind_alternatives(iban[p])
            alt = alts[rng.randrange(len(alts))]
            typos.append(iban[:p] + alt + iban[p + 1:])
        rng.shuffle(typos)
        for k in range(25 if ctx.quick else 60):
            cut = rng.randrange(1, min(4, len(bban)))
            lead = "".join(rng.choice("0123456789") for _ in range(cut))
            sign = "-/.:_"[k % 5]
            for t in typos[:30 if ctx.quick else 60]:
                if k % 2:
                    ops.append({"op": "iban.from_bban", "cc": cps(cc), "bban": cps(lead + sign + bban[cut + 1:]),
                                "ai": False, "vb": False, "err": "poison"})
                else:
                    ops.append({"op": "iban.new", "t": cps(cc + lead + sign + iban[cut + 3:]), "vb": False,
                                "err": "poison"})
                ops.append({"op": "iban.new", "t": cps(t), "vb": False, "err": "substitute"})
                after_failure += 1
    events = calls.execute(ctx, ops, "c03")
    mism = calls.validate(ctx, "TraceCalls", events, env, "c03", per_shard=30000)
    calls.report(ctx, mism, CLAUSES)
    slipped = [e for e in events if e["err"] in ("substitute", "transpose") and e["out"]["k"] == "ok"
               and (e["op"] != "iban.is_valid" or e["out"].get("ret"))]
    if slipped and not ctx.violations:
        # the library accepted a single-error text and TLC agreed it is valid: the
        # specification-level theorem (MC_Mod97Errors) would be contradicted
        raise MachineryError(f"single-error text accepted by code and spec alike: {text(slipped[0]['t'])}")
    ok_seeds = sum(1 for e in events if e["err"] == "none" and e["out"]["k"] == "ok")
    if ok_seeds != seeds and not ctx.violations:
        raise MachineryError(f"only {ok_seeds} of {seeds} seed IBANs accepted")
    calls.three_samples(ctx, events)
    return {"rule": "all countries x n valid IBANs x every position >= 2 x every same-kind replacement (9 digits / "
                    "25 letters) and every adjacent same-kind transposition; each is a distinct invalid text",
            "distinct_nontrivial": len({tuple(e.get("t") or e["bban"]) for e in events}), "exhaustive": False,
            "extra": {"seed_ibans": seeds, "substitutions": sum(1 for e in events if e["err"] == "substitute"),
                      "transpositions": sum(1 for e in events if e["err"] == "transpose"),
                      "single_error_texts_accepted": len(slipped),
                      "typos_asked_right_after_a_failing_call": after_failure}}
