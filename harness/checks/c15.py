"""C15 - results depend only on arguments and bundled data, never on call history."""
from __future__ import annotations

import itertools
import json
import random
import re

import c07
import c14
import calls
import gen
import tlc
from base import Ctx
from common import SPEC, MachineryError, cps


FAMILIES: list[list[int]] = []


def menu(ctx: Ctx, rng: random.Random) -> list[dict]:
    m = []
    FAMILIES.clear()
    # every Bundesbank method: an account that triggers the method's special case (where it has one),
    # an ordinary one and the all-zero account - a special case must not leave anything behind
    # The accounts are chosen by PATH CLASS: candidates (special-case accounts, random accounts with 0-3
    # leading zeros, each with every check digit) are run once with line tracing, and one account per
    # distinct (set of executed lines, kind of outcome) enters the menu - so a path that raises half-way
    # through a multi-variant method is in the menu next to the paths it could disturb.
    cap = 9 if ctx.quick else 14
    chosen = c14.path_class_accounts(ctx, rng, cap, "c15")
    for meth in c07.METHODS:
        accts = chosen[meth]
        FAMILIES.append(list(range(len(m), len(m) + len(accts))))
        for acct in accts:
            m.append({"op": "algo.validate", "method": meth, "account": cps(acct)})
    m += [
        {"op": "iban.new", "t": cps("DE89370400440532013000"), "vb": False},
        {"op": "iban.new", "t": cps("DE89370400440532013000"), "vb": True},
        {"op": "iban.new", "t": cps("DE89370400440532013001"), "vb": False},        # checksum
        {"op": "iban.new", "t": cps("DE8937040044053201300"), "vb": False},         # length
        {"op": "iban.new", "t": cps("XX89370400440532013000"), "vb": False},        # country
        {"op": "iban.new", "t": cps("DE89-70400440532013000"), "vb": False},        # structure
        {"op": "iban.new", "t": cps("NO9386011117947"), "vb": True},
        {"op": "iban.new", "t": cps("NO7586011117948"), "vb": True},                # national failure
        {"op": "iban.new", "t": cps("BE68539007547034"), "vb": True},
        {"op": "iban.is_valid", "t": cps("de89 3704 0044 0532 0130 00")},
        {"op": "bic.new", "t": cps("GENODEM1GLS"), "strict": False},
        {"op": "bic.new", "t": cps("1234DEWWXXX"), "strict": True},
        {"op": "bic.new", "t": cps("GENOXXM1"), "strict": False},
        {"op": "iban.generate", "cc": cps("DE"), "bank": cps("37040044"), "branch": [], "acct": cps("532013000")},
        {"op": "iban.generate", "cc": cps("NO"), "bank": cps("8601"), "branch": [], "acct": cps("111794")},
        {"op": "iban.generate", "cc": cps("DE"), "bank": cps("370400440"), "branch": [], "acct": cps("1")},
        {"op": "iban.generate", "cc": cps("ES"), "bank": cps("2100"), "branch": cps("0418"), "acct": cps("45A")},
        {"op": "iban.random", "country": cps("DE"), "seed": 7, "use_registry": True, "pinned": [], "vals": {}},
        {"op": "iban.random", "country": cps("NO"), "seed": 8, "use_registry": False, "pinned": [], "vals": {}},
        {"op": "iban.random", "country": [], "seed": 9, "use_registry": True, "pinned": [], "vals": {}},
        {"op": "bic.lookup", "cc": cps("DE"), "code": cps("43060967")},
        {"op": "bic.lookup", "cc": cps("DE"), "code": cps("00000000")},
        {"op": "bic.reverse", "bic": cps("GENODEM1GLS")},
        {"op": "iban.bank", "t": cps("DE89370400440532013000")},
        {"op": "iban.parts", "t": cps("GB33BUKB20201555555555"), "ai": False},
        {"op": "values", "kind": "props", "a": {"cls": "IBAN", "text": cps("DE89370400440532013000"), "cc": [],
                                                "via": ["deepcopy"]},
         "b": {"cls": "BBAN", "text": cps("370400440532013000"), "cc": cps("DE"), "via": ["pickle2"]}},
    ]
    # near-collisions: calls that differ in ONE argument only (a flag, the country) - what a cache
    # with an incomplete key would confuse
    zeros = "0" * 16
    fam_start = len(m)
    m += [
        {"op": "iban.from_bban", "cc": cps("AT"), "bban": cps(zeros), "ai": False, "vb": False},
        {"op": "iban.from_bban", "cc": cps("BA"), "bban": cps(zeros), "ai": False, "vb": False},
        {"op": "iban.new", "t": cps("AT" + gen.check_digits("AT", zeros) + zeros), "vb": False},
        {"op": "iban.new", "t": cps("BA" + gen.check_digits("BA", zeros) + zeros), "vb": False},
        # one BBAN text under two countries whose fields lie elsewhere (a memo keyed by the value alone)
        {"op": "iban.parts", "t": cps("AT" + gen.check_digits("AT", "1234567890123456") + "1234567890123456"), "ai": False},
        {"op": "iban.parts", "t": cps("BA" + gen.check_digits("BA", "1234567890123456") + "1234567890123456"), "ai": False},
        {"op": "iban.parts", "t": cps("DE" + gen.check_digits("DE", "370400440532013000") + "370400440532013000"), "ai": False},
        {"op": "iban.parts", "t": cps("CR" + gen.check_digits("CR", "370400440532013000") + "370400440532013000"), "ai": False},
        # ... and whose bank-identifying fields are cut differently (both banks are listed)
        {"op": "iban.bank", "t": cps("DK" + gen.check_digits("DK", "10010000000018") + "10010000000018")},
        {"op": "iban.bank", "t": cps("FI" + gen.check_digits("FI", "10010000000018") + "10010000000018")},
        # one BBAN text under two countries of equal IBAN length but different structure (check digits of each)
        {"op": "iban.new", "t": cps("DE" + gen.check_digits("DE", "370400440532013000") + "370400440532013000"), "vb": False},
        {"op": "iban.new", "t": cps("GB" + gen.check_digits("GB", "370400440532013000") + "370400440532013000"), "vb": False},
        {"op": "iban.new", "t": cps("IE" + gen.check_digits("IE", "AIBK93115212345678") + "AIBK93115212345678"), "vb": False},
        {"op": "iban.new", "t": cps("DE" + gen.check_digits("DE", "AIBK93115212345678") + "AIBK93115212345678"), "vb": False},
        # XK: in the IBAN table, not an ISO 3166 country - reading everything about an XK IBAN (its country
        # object too) must not teach the BIC side a new country
        {"op": "iban.parts", "t": cps("XK051212012345678906"), "ai": False},
        {"op": "bic.new", "t": cps("NCBVXKPR"), "strict": False},
        {"op": "bic.is_valid", "t": cps("NCBVXKPRXXX"), "strict": False},
        {"op": "iban.new", "t": cps("NO7586011117948"), "vb": False},
        {"op": "bic.new", "t": cps("1234DEWWXXX"), "strict": False},
        {"op": "bic.validate", "t": cps("1234DEWWXXX"), "strict": True},
        {"op": "bic.lookup", "cc": cps("AT"), "code": cps("43060967")},
        {"op": "iban.random", "country": cps("DE"), "seed": 7, "use_registry": False, "pinned": [], "vals": {}},
        {"op": "iban.random", "country": cps("BR"), "seed": 1, "use_registry": True, "pinned": [], "vals": {}},
        {"op": "iban.random", "country": [], "seed": 219, "use_registry": True, "pinned": [], "vals": {}},
    ]
    FAMILIES.append(list(range(fam_start, len(m))))
    # ISO-valid IBANs whose NATIONAL digits are wrong, without and with national validation (a verdict
    # cached without the flag would leak from the lenient to the strict call)
    for cc, bban in (("NO", "86011117948"), ("BE", "539007547035"), ("ES", "21000418450200051333"),
                     ("FR", "20041010050500013M02607"), ("IT", "X0542811101000000123457")):
        t = cps(cc + gen.check_digits(cc, bban) + bban)
        FAMILIES.append(list(range(len(m), len(m) + 4)))
        m += [{"op": "iban.new", "t": t, "vb": False}, {"op": "iban.is_valid", "t": t},
              {"op": "iban.new", "t": t, "vb": True}, {"op": "iban.validate", "t": t, "vb": True}]
    # countries that share a structure string but publish different positions (a cache keyed by the
    # structure would confuse them): generation and decomposition for each member
    env0 = ctx.frozen(banks=False)
    by_spec = {}
    for row in ctx.table(env0):
        if row["haspos"] and gen.row_classes(row) is not None:
            by_spec.setdefault(tuple(row["speccp"]), []).append(row)
    groups = [rows for rows in by_spec.values() if len({json.dumps(r["pos"]) for r in rows}) > 1]
    for rows in groups[:4]:
        seen_pos = set()
        FAMILIES.append([])
        for row in rows:
            pj = json.dumps(row["pos"])
            if pj in seen_pos:
                continue
            seen_pos.add(pj)
            cc = gen.cc_of(row)
            import c08
            wb, wa = c08.width(row, "bank_code"), c08.width(row, "account_code")
            FAMILIES[-1] += [len(m), len(m) + 1]
            m += [{"op": "iban.generate", "cc": cps(cc), "bank": cps(c08.field_chars(row, "bank_code", rng, wb)),
                   "branch": [], "acct": cps(c08.field_chars(row, "account_code", rng, max(wa - 1, 1)))},
                  {"op": "iban.parts", "t": cps(gen.valid_iban(row, rng)), "ai": False}]
    # countries WITHOUT published positions: reading components, drawing and generating for them must not
    # disturb each other (a helper that fills in a default positions entry would)
    nopos = [r for r in ctx.table(env0) if not r["haspos"] and gen.row_classes(r) is not None]
    for row in nopos[:2] + nopos[-1:]:
        cc = gen.cc_of(row)
        FAMILIES.append(list(range(len(m), len(m) + 5)))
        m += [{"op": "iban.parts", "t": cps(gen.valid_iban(row, rng)), "ai": False},
              {"op": "iban.random", "country": cps(cc), "seed": 3, "use_registry": False, "pinned": [], "vals": {}},
              {"op": "bban.random", "country": cps(cc), "seed": 4, "use_registry": True, "pinned": [], "vals": {}},
              {"op": "iban.new", "t": cps(gen.valid_iban(row, rng)), "vb": True},
              {"op": "iban.generate", "cc": cps(cc), "bank": cps("1"), "branch": [], "acct": cps("2")}]
    # registry-based draws with and without pinned components, same country and seed (a pinned value
    # written into the drawn registry entry would come back in the unpinned draw); MC has a single bank
    for cc, pin in (("DE", {"bank_code": "99999999"}), ("DE", {"account_code": "0000012345"}),
                    ("MC", {"account_code": "0000012345X"[:11]})):
        FAMILIES.append(list(range(len(m), len(m) + 4)))
        vals = {k: cps(v) for k, v in pin.items()}
        m += [{"op": "iban.random", "country": cps(cc), "seed": 11, "use_registry": True, "pinned": [], "vals": {}},
              {"op": "iban.random", "country": cps(cc), "seed": 11, "use_registry": True, "pinned": sorted(pin), "vals": vals},
              {"op": "bban.random", "country": cps(cc), "seed": 12, "use_registry": True, "pinned": [], "vals": {}},
              {"op": "iban.random", "country": cps(cc), "seed": 11, "use_registry": False, "pinned": sorted(pin), "vals": vals}]
    # JOINED-TEXT collisions: a national algorithm is fed the concatenated fields of country X, the IBAN
    # checksum the concatenation "BBAN of country Y" + "Y". Where X's fields may end in two letters, the
    # two concatenations can be the very same text (FR ...AE vs AE, MK ...NO vs NO): a memo keyed by the
    # joined text would hand one computation the other's result
    import c06
    joined = c06.joined_collisions(ctx, ctx.table(env0), rng, "c15join")
    for x, ibx, y, by in joined:
        FAMILIES.append(list(range(len(m), len(m) + 4)))
        m += [{"op": "iban.new", "t": cps(ibx), "vb": True},
              {"op": "iban.from_bban", "cc": cps(y), "bban": cps(by), "ai": False, "vb": False},
              {"op": "iban.new", "t": cps(y + gen.check_digits(y, by) + by), "vb": False},
              {"op": "iban.generate", "cc": cps(x), "bank": cps(ibx[4:7]), "branch": [], "acct": cps("1")}]
    ctx.coverage["joined_text_collision_pairs"] = [f"{x}/{y}" for x, _, y, _ in joined]
    # texts that differ only at a BBAN position no component covers (filler), and for a country without
    # positions: a memo keyed by the components would confuse a valid IBAN with its corruption
    for row in ctx.table(env0):
        cls = gen.row_classes(row)
        if cls is None:
            continue
        covered = set()
        for a, z in row["pos"]:
            covered.update(range(a, z))
        free = [p for p in range(len(cls)) if p not in covered and cls[p] == 110]
        if free and (gen.cc_of(row) in ("TR", "MU", "AO") or len(FAMILIES) % 7 == 0):
            good = gen.valid_iban(row, rng)
            p = 4 + free[0]
            bad = good[:p] + ("1" if good[p] != "1" else "2") + good[p + 1:]
            FAMILIES.append([len(m), len(m) + 1])
            m += [{"op": "iban.new", "t": cps(good), "vb": False}, {"op": "iban.new", "t": cps(bad), "vb": False}]
            if len([f for f in FAMILIES if len(f) == 2]) > 8:
                break
    # bank keys with several entries of mixed primary flags whose first listed entry is not primary:
    # lookups on them must not disturb each other (the registry is frozen)
    import c12
    seen = {}
    for e in c12.raw_entries_full():
        seen.setdefault((e["cc"], e["code"]), []).append(e)
    mixed = [k for k, es in seen.items() if len(es) > 1 and not es[0]["primary"] and any(x["primary"] for x in es)
             and k[0] == "DE"]
    # one bank key (the same digits) in two countries - listed in both, or listed in one only: a memo
    # keyed by the digits alone would hand one country the other's bank (and, for German banks, the
    # other's check digit method)
    tbl = {gen.cc_of(r): r for r in ctx.table(env0) if gen.row_classes(r) is not None}
    by_code = {}
    for (cc, code) in seen:
        if cc in tbl and code:
            by_code.setdefault(code, set()).add(cc)
    shared = sorted((code, sorted(ccs)) for code, ccs in by_code.items() if len(ccs) > 1)
    picks = [(code, ccs[0], ccs[1]) for code, ccs in shared if "DE" in ccs][:2] + \
            [(code, ccs[0], ccs[1]) for code, ccs in shared if "DE" not in ccs][:: max(1, len(shared) // 2)][:2] + \
            [("37040044", "PL", "DE"), ("10220500", "BR", "DE")]
    for code, c1, c2 in picks:
        fam = []
        for cc in (c1, c2):
            placed = c12.place_key(tbl[cc], gen.bban_for(tbl[cc], rng, "low"), code) if cc in tbl else None
            if placed:
                t = cps(cc + gen.check_digits(cc, placed) + placed)
                fam += [{"op": "iban.bank", "t": t}, {"op": "iban.new", "t": t, "vb": True}]
        if len(fam) == 4:
            FAMILIES.append(list(range(len(m), len(m) + 4)))
            m += fam
    for cc, code in sorted(mixed)[:: max(1, len(mixed) // 3)][:3]:
        FAMILIES.append([len(m), len(m) + 1])
        b = code + "0000000000"
        iban = cps(cc + gen.check_digits(cc, b) + b)
        m += [{"op": "bic.lookup", "cc": cps(cc), "code": cps(code)}, {"op": "iban.bank", "t": iban}]
    return m


def key_of(call) -> dict:
    return {"op": call.get("op"), "method": call.get("method", "")}


def run(ctx: Ctx) -> dict:
    if ctx.replay:
        raise MachineryError("replay for C15: re-run ./check C15 quick (histories are regenerated from the seed)")
    rng = random.Random(ctx.seed + 15)
    m = menu(ctx, rng)
    # solo outcome = outcome as the FIRST call of a fresh process (one process per call)
    firsts = c14.thr_jobs_each(ctx, [{"mode": "history", "calls": [c]} for c in m], "first")
    solo_out = [c14.canon(f["steps"][0]["out"]) for f in firsts]
    solo_acc = [f["steps"][0]["acc"] for f in firsts]
    census0 = {f["census0"] for f in firsts}
    if len(census0) != 1:
        raise MachineryError(f"post-import digest differs between fresh processes: {census0}")
    # (A) the model: all histories of length <= 2 over the menu, <= 3 over a sub-menu
    locs, vals = {}, {}
    enc = []
    for acc in solo_acc:
        enc.append([{"k": k, "loc": locs.setdefault(loc, len(locs) + 1), "val": vals.setdefault(val, len(vals) + 1)}
                    for k, loc, val in acc])
    snap = dict((loc, val) for loc, val in firsts[0]["init"])
    init = [[lid, vals.setdefault(snap.get(loc, "0"), len(vals) + 1)] for loc, lid in locs.items()]
    flagged = []
    for maxlen, sub in ((2, list(range(len(m)))), (3, list(range(0, len(m), max(1, len(m) // 12)))[:12])):
        mp = ctx.wd / f"menu-{maxlen}.json"
        mp.write_text(json.dumps({"init": init, "calls": [enc[i] for i in sub]}))
        cfg = tlc.write_cfg(ctx.wd / f"history-{maxlen}.cfg",
                            ["SPECIFICATION Spec", f"CONSTANT MaxLen = {maxlen}", "CHECK_DEADLOCK FALSE"])
        res = tlc.run_tlc("History", cfg, ctx.wd / f"meta-hist-{maxlen}", env={"VERIF_MENU": str(mp)},
                          workers="auto", heap="6g", timeout=3000)
        tlc.require_clean(res, "History")
        ctx.add_model(f"History (every history of <= {maxlen} calls over {len(sub)} menu calls, sequential "
                      "composition over one scratch memory)", res)
        for mm in re.finditer(r'<<"HISTDEP", <<([\d, ]*)>>, (\d+)>>', res.out):
            flagged.append([sub[int(x) - 1] for x in mm.group(1).split(",") if x.strip()])
    # (B) every history of the model in the real code (long-lived processes; the digest
    # after each call must equal the post-import digest, so each history starts from it)
    pairs = [list(p) for p in itertools.product(range(len(m)), repeat=2)]
    if ctx.quick:
        # always: every ordered pair inside a near-collision family; the rest sampled
        keep = [[a, b] for f in FAMILIES for a in f for b in f]
        pairs = keep + rng.sample(pairs, 600)
    hists = [[i] for i in range(len(m))] + pairs
    sub = list(range(0, len(m), max(1, len(m) // 12)))[:12]
    triples = [list(p) for p in itertools.product(sub, repeat=3)]
    hists += triples if not ctx.quick else rng.sample(triples, 300)
    for _ in range(20 if ctx.quick else 400):       # long random histories
        hists.append([rng.randrange(len(m)) for _ in range(rng.randrange(20, 120 if ctx.quick else 200))])
    hists += flagged[:50]
    results = c14.thr_jobs(ctx, [{"mode": "history", "calls": [m[i] for i in h]} for h in hists], "hist")
    events = []
    disc = 0
    for h, r in zip(hists, results):
        steps = [{"out": c14.canon(s["out"]), "solo": solo_out[i], "acc": s["acc"], "census": s["census"],
                  "kept": s["out"].get("untouched", True) is not False}
                 for i, s in zip(h, r["steps"])]
        events.append({"i": len(events), "hist": h, "census0": r["census0"], "steps": steps, "full0": r["full0"],
                       "full_end": r["full_end"]})
    mism = calls.validate(ctx, "TraceHistory", [{k: v for k, v in e.items() if k != "hist"} for e in events], {},
                          "hist", per_shard=250)
    for e, clause, _ in mism:
        h = events[e["i"]]["hist"]
        if clause == "scratch-read-before-written":
            disc += 1                                   # a discipline note, not the property itself
            continue
        bad = next((n for n, s in enumerate(events[e["i"]]["steps"])
                    if s["out"] != s["solo"] or s["census"] != events[e["i"]]["census0"]), len(h) - 1)
        ctx.violate(clause, dict(key_of(m[h[bad]]), clause=clause),
                    {"history": [m[i] for i in h[:bad + 1]][-4:], "position": bad,
                     "got": events[e["i"]]["steps"][bad]["out"], "solo": events[e["i"]]["steps"][bad]["solo"]})
    # whole sessions of mixed calls of every kind, each run in two different orders in fresh
    # interpreters: the outcome of a call must not depend on where in the session it ran
    import session
    senv = ctx.frozen(banks=True)
    rng3 = random.Random(ctx.seed + 1500)
    base_lists = [session.mixed_ops(ctx, senv, rng3, 150 if ctx.quick else 1500) for _ in range(4 if ctx.quick else 16)]
    orders = []
    for ops in base_lists:
        perm = list(range(len(ops)))
        rng3.shuffle(perm)
        orders.append(perm)
    sess = session.run_sessions(ctx, senv, base_lists + [[ops[i] for i in perm] for ops, perm in zip(base_lists, orders)],
                                "c15")
    nb = len(base_lists)
    sess_diff = 0
    for k in range(nb):
        first = [e for e in sess[k] if not e["op"].startswith("load.")]
        second = [e for e in sess[nb + k] if not e["op"].startswith("load.")]
        for pos, i in enumerate(orders[k]):
            if c14.canon(first[i]["out"]) != c14.canon(second[pos]["out"]):
                sess_diff += 1
                ctx.violate("outcome-depends-on-history", dict(key_of(first[i]), clause="outcome-depends-on-history",
                                                               session=True),
                            {"call": calls.describe_event(first[i]), "in_order_1": first[i]["out"],
                             "in_order_2": second[pos]["out"], "preceding_in_order_2": [x["op"] for x in second[max(0, pos - 3):pos]]})
    spec_mism = session.validate_sessions(ctx, senv, sess[:nb], "c15sess")
    session_notes = {}
    for n, e, clause in spec_mism:
        session_notes[clause] = session_notes.get(clause, 0) + 1
    ncalls = sum(len(h) for h in hists) + sum(len(x) for x in sess)
    ctx.evaluations += ncalls
    ctx.samples = [{"history": [m[i] for i in hists[len(m) + 3]], "outcomes": [s["out"] for s in events[len(m) + 3]["steps"]]}]
    ctx.assumptions += ["'first call in a fresh process' is realised by one new interpreter per menu call",
                        "registry immutability is observed through a structural digest (sampled entries of the five "
                        "registries, all algorithm keys) and through projections of previously created objects"]
    return {"rule": "every history of <= 2 calls over the menu and <= 3 over a 12-call sub-menu (all in the model; all "
                    "/ sampled in the code), plus long random histories; after every call: outcome = first-call "
                    "outcome, registries and earlier objects unchanged; distinct = distinct histories",
            "distinct_nontrivial": len({tuple(h) for h in hists}), "exhaustive": False,
            "extra": {"menu_calls": len(m), "histories_run": len(hists), "calls_run": ncalls,
                      "model_flagged_histories": len(flagged), "read_before_write_notes": disc,
                      "session_calls": sum(len(x) for x in sess), "session_order_differences": sess_diff,
                      "session_spec_verdict_notes": session_notes}}
