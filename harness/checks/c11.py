"""C11 - an IBAN or BIC decomposes losslessly into its published fields."""
from __future__ import annotations

import random
import string

import c04
import calls
import gen
import tlc
from base import Ctx
from common import SPEC, MachineryError, cps, text

CLAUSES = None   # every clause of the decomposition verdicts belongs to C11
OWN = {"decomposition-raised", "compact-differs", "length-differs", "country-code-differs", "check-digits-differ",
       "bban-differs", "bban-country-differs", "not-lossless", "formatted-differs",
       "formatted-does-not-round-trip", "wrong-class", "from_bban-does-not-rebuild", "party-differs",
       "location-differs", "branch-differs", "type-differs", "non-library-exception"}


def keyfn(e, clause):
    return {"op": e.get("op"), "clause": clause.split(":")[0], "field": clause.split(":")[1] if ":" in clause else ""}


def model(ctx: Ctx, env: dict) -> None:
    cfg = ctx.wd / "MC_Positions.cfg"
    cfg.write_text((SPEC / "MC_Positions.cfg").read_text())
    res = tlc.run_tlc("MC_Positions", cfg, ctx.wd / "meta-pos", env=env, workers=1, heap="2g")
    if res.violated:
        ctx.coverage["table_not_decomposable"] = res.violated
        ctx.assumptions.append(f"table invariant {res.violated} fails for some country (a C17 data defect); "
                               "decomposition is still compared slice by slice")
    elif res.rc != 0:
        tlc.require_clean(res, "MC_Positions")
    ctx.add_model("MC_Positions (one state per country of the frozen table: ranges inside the BBAN, pairwise "
                  "disjoint)", res)


def run(ctx: Ctx) -> dict:
    env = ctx.frozen(banks=False)
    if ctx.replay:
        calls.replay(ctx, "TraceCalls", env, None, keyfn)
        return {}
    model(ctx, env)
    table = ctx.table(env)
    rng = random.Random(ctx.seed + 11)
    n = 12 if ctx.quick else 1500
    ops = []
    for row in table:
        if gen.row_classes(row) is None:
            continue
        for k in range(n):
            iban = gen.valid_iban(row, rng, ("random", "low", "high", "letters")[k % 4])
            t = cps(iban)
            if k % 5 == 4:    # spaced / lower-case input
                t = cps(" ".join(iban[i:i + 4] for i in range(0, len(iban), 4)).lower())
            ops.append({"op": "iban.parts", "t": t, "ai": False})
        # objects constructed with validation off: truncated, extended, unknown country
        iban = gen.valid_iban(row, rng)
        for t in (iban[:rng.randrange(0, len(iban))], iban + "0", "XX" + iban[2:], iban[:6]):
            ops.append({"op": "iban.parts", "t": cps(t), "ai": True})
    bics = c04.registry_bics()
    for b in (bics if not ctx.quick else rng.sample(bics, 1500)):
        ops.append({"op": "bic.parts", "t": cps(b), "ai": False})
    chars = string.ascii_uppercase + string.digits
    for _ in range(2000 if ctx.quick else 100000):
        ln = rng.choice((8, 11))
        t = "".join(rng.choice(chars) for _ in range(4)) + rng.choice(["DE", "FR", "GB", "US", "CH", "NL", "IT"]) + \
            "".join(rng.choice(chars) for _ in range(ln - 6))
        ops.append({"op": "bic.parts", "t": cps(t), "ai": False})
    for t in ("", "ABC", "GENODEM", "GENODEM1G", "GENODEM1GL", "GENODEM1GLSX", "genodem1gls", "GENO DE M1 GLS"):
        ops.append({"op": "bic.parts", "t": cps(t), "ai": True})
    # texts that are NOT valid but leave remainder 1 (the alias spellings 99 / 00 / 01 of the prescribed
    # digits 02 / 97 / 98): should one be accepted, its decomposition no longer re-assembles
    aliases = {"02": "99", "97": "00", "98": "01"}
    for row in (tbl_rows := [r for r in table if gen.row_classes(r) is not None])[:: 1 if not ctx.quick else 6]:
        cc = gen.cc_of(row)
        want = dict(aliases)
        for _ in range(1500):
            if not want:
                break
            b = gen.bban_for(row, rng)
            d = gen.check_digits(cc, b)
            if d in want:
                ops.append({"op": "iban.parts", "t": cps(cc + want.pop(d) + b), "ai": False})
    # IBANs that carry the key of a really listed bank (where the registry knows more about the bank
    # code than the IBAN shows, the decomposition must still read the IBAN)
    import c12
    tbl = {gen.cc_of(r): r for r in table.values()} if isinstance(table, dict) else {gen.cc_of(r): r for r in table}
    keys = {}
    for e in c12.raw_entries():
        if e["code"] and e["cc"] in tbl:
            keys.setdefault(e["cc"], []).append(e["code"])
    for cc, codes in sorted(keys.items()):
        row = tbl[cc]
        if gen.row_classes(row) is None:
            continue
        for code in rng.sample(sorted(set(codes)), min(len(set(codes)), 4 if ctx.quick else 40)):
            placed = c12.place_key(row, gen.bban_for(row, rng), code)
            if placed:
                ops.append({"op": "iban.parts", "t": cps(cc + gen.check_digits(cc, placed) + placed), "ai": False})
    import fuzz
    ops = fuzz.extend(ctx, ops, "c11", n_seeds=800, quick=2000)
    events = calls.execute(ctx, ops, "c11")
    mism = calls.validate(ctx, "TraceCalls", events, env, "c11", per_shard=4000)
    calls.report(ctx, mism, None, keyfn)
    okn = sum(1 for e in events if e["out"]["k"] == "ok")
    if okn < len(events) * 0.9 and not ctx.violations:
        raise MachineryError(f"only {okn} of {len(events)} decompositions succeeded")
    comps = {}
    for e in events:
        if e["op"] == "iban.parts" and e["out"]["k"] == "ok":
            for name, v in e["out"]["comp"].items():
                if v:
                    comps[name] = comps.get(name, 0) + 1
    calls.three_samples(ctx, events)
    ctx.assumptions.append("'published position' = the position in the bundled (spec-merged) table; a position edited "
                           "in the data is C17's / C06's business")
    return {"rule": "every country x n accepted IBANs (plus allow_invalid objects) and registry / random BICs: all "
                    "eight components through IBAN and BBAN accessors, country, check digits, bban, formatted, "
                    "from_bban rebuild; distinct = distinct texts",
            "distinct_nontrivial": len({(e["op"], tuple(e["t"])) for e in events}), "exhaustive": False,
            "extra": {"decompositions": len(events), "non_empty_component_reads": comps}}
