"""C14 - concurrent use gives every caller the answer it would get alone."""
from __future__ import annotations

import itertools
import json
import random
import re
import subprocess

import c06
import c07
import calls
import gen
import tlc
from base import Ctx
from common import HARNESS, NCPU, PYTHON, SPEC, MachineryError, chunks, cps, py_env, text


def canon(out: dict) -> str:
    return json.dumps({k: v for k, v in out.items() if k != "msg"}, sort_keys=True)


def thr_jobs(ctx: Ctx, jobs: list[dict], tag: str) -> list[dict]:
    """Run jobs in parallel thr_probe processes (each job is independent); jobs are dealt round-robin
    so that long jobs spread over the processes, results come back in the original order."""
    n = max(1, min(NCPU, len(jobs)))
    order = [list(range(k, len(jobs), n)) for k in range(n)]
    parts = [[jobs[i] for i in idx] for idx in order]
    procs = []
    for n, part in enumerate(parts):
        ip = ctx.wd / f"{tag}-job-{n}.json"
        op = ctx.wd / f"{tag}-res-{n}.json"
        ip.write_text(json.dumps({"jobs": part}))
        procs.append((subprocess.Popen([PYTHON, str(HARNESS / "thr_probe.py"), str(ip), str(op)], env=py_env(),
                                       stdout=subprocess.PIPE, stderr=subprocess.PIPE, text=True), op))
    out = [None] * len(jobs)
    for (p, op), idx in zip(procs, order):
        _, err = p.communicate()
        if p.returncode != 0:
            raise MachineryError("thr_probe failed: " + err[-1500:])
        for i, r in zip(idx, json.loads(op.read_text())):
            out[i] = r
    return out


def thr_jobs_each(ctx: Ctx, jobs: list[dict], tag: str) -> list[dict]:
    """One fresh interpreter per job (at most NCPU at a time)."""
    out = [None] * len(jobs)
    for base in range(0, len(jobs), NCPU):
        procs = []
        for n, job in enumerate(jobs[base:base + NCPU]):
            ip = ctx.wd / f"{tag}-job1-{base + n}.json"
            op = ctx.wd / f"{tag}-res1-{base + n}.json"
            ip.write_text(json.dumps({"jobs": [job]}))
            procs.append((subprocess.Popen([PYTHON, str(HARNESS / "thr_probe.py"), str(ip), str(op)], env=py_env(),
                                           stdout=subprocess.PIPE, stderr=subprocess.PIPE, text=True), op, base + n))
        for p, op, idx in procs:
            _, err = p.communicate()
            if p.returncode != 0:
                raise MachineryError("thr_probe failed: " + err[-1500:])
            out[idx] = json.loads(op.read_text())[0]
    return out


def path_class_accounts(ctx: Ctx, rng: random.Random, cap: int, tag: str) -> dict[str, list[str]]:
    """Per Bundesbank method: the all-zero account plus one account per PATH CLASS. Candidates
    (special-case accounts, random accounts with 0-3 leading zeros, some with every check digit) are run
    once with line tracing; one account per distinct (set of executed package lines, kind of outcome) is
    kept - so a path that raises half-way through a multi-variant method is chosen next to the paths it
    could disturb. The classification only CHOOSES inputs, it never judges."""
    cands, special_of = {}, {}
    for meth in c07.METHODS:
        special = c07.boundary_accounts(meth, rng)
        rng.shuffle(special)
        pool = special[:40]
        special_of[meth] = list(pool)
        for k in range(32 if ctx.quick else 96):
            z = (0, 1, 2, 3, 4, 5, 6, 7)[k % 8]           # up to seven leading zeros: short account numbers
            a = "0" * z + "".join(rng.choice("0123456789") for _ in range(10 - z))
            pool.append(a)
            if k % 3 == 0:
                pool += c07.with_every_check_digit(a, meth)
        cands[meth] = list(dict.fromkeys(pool))
    cls = thr_jobs(ctx, [{"mode": "classify", "calls": [{"op": "algo.validate", "method": meth, "account": cps(a)}
                                                         for a in cands[meth]]} for meth in c07.METHODS], tag + "-classify")
    out = {}
    for meth, res in zip(c07.METHODS, cls):
        seen, accts = set(), ["0000000000"]
        for a, c in zip(cands[meth], res["classes"]):
            key = (c["sig"], c["kind"])
            if key not in seen and a not in accts and len(accts) < cap:
                seen.add(key)
                accts.append(a)
        # independent of the code under test (a change can merge two paths into one line set): always
        # an ordinary account and, where the method has special-case accounts, one of those
        extra = [a for a in cands[meth] if a[0] != "0" and a not in special_of[meth]][:1] + special_of[meth][:4]
        accts += [a for a in extra if a not in accts]
        ctx.coverage.setdefault("path_classes_per_method", {})[meth] = len(accts)
        out[meth] = accts
    return out


def menu(ctx: Ctx, rng: random.Random) -> tuple[list[dict], dict]:
    """Calls, grouped by the algorithm object they are routed to."""
    callsl, by_obj = [], {}

    def add(op, obj):
        callsl.append(op)
        by_obj.setdefault(obj, []).append(len(callsl) - 1)

    chosen = path_class_accounts(ctx, rng, 5 if ctx.quick else 9, "c14")
    for m in c07.METHODS:
        for acct in chosen[m][1:] + chosen[m][:1]:
            add({"op": "algo.validate", "method": m, "account": cps(acct)}, "DE:" + m)
    # through the public API: German IBANs of banks using scratch-parking methods, national algorithms
    banks = c07.de_bank_methods()
    for code, m in sorted(banks.items())[:: max(1, len(banks) // (25 if ctx.quick else 200))]:
        for _ in range(2):
            b = code + "".join(rng.choice("0123456789") for _ in range(10))
            add({"op": "iban.new", "t": cps("DE" + gen.check_digits("DE", b) + b), "vb": True}, "DE:" + m)
    # national algorithms: per country several nationally valid IBANs of DIFFERENT banks / branches
    # (reference digits from the specification) and an invalid one, validated and generated
    env = ctx.frozen(banks=False)
    table = {gen.cc_of(r): r for r in ctx.table(env)}
    bodies = []
    for cc in c06.NAT:
        row = table.get(cc)
        if row is None or gen.row_classes(row) is None:
            continue
        for _ in range(3 if ctx.quick else 5):
            bodies.append({"cc": cps(cc), "b": cps(gen.bban_for(row, rng))})
    fixed = c06.nat_gen(ctx, bodies, "c14")
    for bd, fx in zip(bodies, fixed):
        cc = text(bd["cc"])
        b = text(fx["b"])
        iban = cc + gen.check_digits(cc, b) + b
        add({"op": "iban.new", "t": cps(iban), "vb": True}, cc + ":default")
        row = table[cc]
        if cc in ("ES", "BE", "FR", "IT", "NO", "PL", "EE", "PT", "SI", "FI"):
            names = ["account_id", "account_type", "account_code", "account_holder_id", "currency_code", "bank_code",
                     "branch_code", "national_checksum_digits"]
            part = {n: b[row["pos"][names.index(n)][0]:row["pos"][names.index(n)][1]] for n in names}
            add({"op": "iban.generate", "cc": cps(cc), "bank": cps(part["bank_code"]),
                 "branch": cps(part["branch_code"]), "acct": cps(part["account_code"])}, cc + ":default")
    for iban in ("BE68539007547034", "ES9121000418450200051332", "NO9386011117947", "CZ6508000000192000145399"):
        add({"op": "iban.new", "t": cps(iban[:-1] + ("0" if iban[-1] != "0" else "1")), "vb": True},
            iban[:2] + ":default")
    for op in ({"op": "iban.new", "t": cps("GB33BUKB20201555555555"), "vb": False},
               {"op": "iban.new", "t": cps("XX00"), "vb": False},
               {"op": "bic.new", "t": cps("GENODEM1GLS"), "strict": False},
               {"op": "iban.generate", "cc": cps("DE"), "bank": cps("37040044"), "branch": [], "acct": cps("532013000")},
               {"op": "iban.generate", "cc": cps("NO"), "bank": cps("8601"), "branch": [], "acct": cps("111794")},
               {"op": "bic.lookup", "cc": cps("DE"), "code": cps("43060967")},
               {"op": "bic.lookup", "cc": cps("DE"), "code": cps("00000000")},
               {"op": "iban.bank", "t": cps("DE89370400440532013000")},
               {"op": "iban.random", "country": cps("DE"), "seed": 5, "use_registry": True, "pinned": [], "vals": {}},
               {"op": "iban.random", "country": cps("NO"), "seed": 6, "use_registry": False, "pinned": [], "vals": {}},
               # a second, different input of each kind and country (same-kind pairs for the line-level sweep)
               {"op": "iban.new", "t": cps("GB29NWBK60161331926819"), "vb": False},
               {"op": "iban.new", "t": cps("GB94BARC20201530093459"), "vb": False},
               {"op": "bic.new", "t": cps("DEUTDEFF500"), "strict": True},
               {"op": "bic.new", "t": cps("1234DEWWXXX"), "strict": True},
               {"op": "iban.generate", "cc": cps("DE"), "bank": cps("43060967"), "branch": [], "acct": cps("7000534100")},
               {"op": "iban.generate", "cc": cps("GB"), "bank": cps("NWBK"), "branch": cps("601613"), "acct": cps("31926819")},
               {"op": "iban.generate", "cc": cps("GB"), "bank": cps("BUKB"), "branch": cps("202015"), "acct": cps("55555555")},
               {"op": "bban.from_components", "cc": cps("AT"), "bank": cps("19043"), "branch": [], "acct": cps("234573201")},
               {"op": "bban.from_components", "cc": cps("AT"), "bank": cps("32000"), "branch": [], "acct": cps("12345864")},
               {"op": "bic.lookup", "cc": cps("DE"), "code": cps("20070000")},
               {"op": "bic.lookup", "cc": cps("AT"), "code": cps("36274")},
               {"op": "bic.lookup", "cc": cps("AT"), "code": cps("19043")},
               {"op": "bic.reverse", "bic": cps("GENODEM1GLS")},
               {"op": "bic.reverse", "bic": cps("DEUTDEDBHAM")},
               {"op": "iban.bank", "t": cps("DE42430609677000534100")},
               {"op": "iban.parts", "t": cps("DE89370400440532013000"), "ai": False},
               {"op": "iban.parts", "t": cps("DE42430609677000534100"), "ai": False},
               # several entry points that meet at ONE registry key (several candidates, preferred not first)
               {"op": "bic.lookup", "cc": cps("FR"), "code": cps("20041")},
               {"op": "iban.bank", "t": cps("FR1420041010050500013M02606")},
               {"op": "iban.bank", "t": cps("FR7620041010050500013M02703")},
               {"op": "bic.lookup", "cc": cps("FR"), "code": cps("30004")},
               {"op": "iban.bank", "t": cps("FR7630004000031234567890143")},
               {"op": "iban.random", "country": cps("DE"), "seed": 15, "use_registry": True, "pinned": [], "vals": {}},
               {"op": "iban.random", "country": cps("GB"), "seed": 16, "use_registry": True, "pinned": [], "vals": {}},
               {"op": "iban.random", "country": cps("GB"), "seed": 17, "use_registry": False, "pinned": [], "vals": {}},
               {"op": "values", "kind": "props", "a": {"cls": "IBAN", "text": cps("DE89370400440532013000"), "cc": [],
                                                       "via": ["deepcopy"]},
                "b": {"cls": "BBAN", "text": cps("370400440532013000"), "cc": cps("DE"), "via": ["pickle2"]}}):
        add(op, "misc")
    return callsl, by_obj


def build_groups(ctx: Ctx, callsl, by_obj, solo, rng) -> list[dict]:
    groups = []

    def grp(idx):
        groups.append({"calls": list(idx)})

    for obj, idxs in sorted(by_obj.items()):
        pairs = list(itertools.product(idxs, repeat=2)) if obj != "misc" else list(itertools.combinations(idxs, 2))
        writes = any(k == "W" for i in idxs for k, _, _ in solo[i]["acc"])
        if ctx.quick and len(pairs) > 12 and not writes:      # objects with shared writes: all pairs, always
            pairs = rng.sample(pairs, 12)
        for p in pairs:
            grp(p)
        if obj.startswith("DE:") and len(idxs) >= 3:
            for _ in range(1 if ctx.quick else 6):
                grp(rng.sample(idxs, 3))
    objs = sorted(by_obj)
    for _ in range(40 if ctx.quick else 400):       # calls routed to different objects
        a, b = rng.sample(objs, 2)
        grp((rng.choice(by_obj[a]), rng.choice(by_obj[b])))
    # integer ids for locations and values
    for g in groups:
        locs, vals = {}, {}
        g["threads"] = []
        written = {loc for ci in g["calls"] for k, loc, val in solo[ci]["acc"] if k == "W"}
        for ci in g["calls"]:
            th = []
            for k, loc, val in solo[ci]["acc"]:
                if loc not in written:
                    continue        # nobody in the group writes it: every read returns the initial value

                th.append({"k": k, "loc": locs.setdefault(loc, len(locs) + 1), "val": vals.setdefault(val, len(vals) + 1)})
            g["threads"].append(th)
        g["locs"], g["vals"] = locs, vals
    return groups


def tlc_interleavings(ctx: Ctx, groups: list[dict], init_snapshot: dict) -> dict[int, list[list[int]]]:
    """All interleavings of every group's access sequences; returns racy schedules per group."""
    payload = []
    for n, g in enumerate(groups):
        init = [[lid, g["vals"].setdefault(init_snapshot.get(loc, "?"), len(g["vals"]) + 1)]
                for loc, lid in g["locs"].items()]
        payload.append({"id": n, "init": init, "threads": g["threads"]})
    racy: dict[int, list[list[int]]] = {}
    parts = chunks(payload, 8)
    states = trans = 0
    for pn, part in enumerate(parts):
        gp = ctx.wd / f"groups-{pn}.json"
        gp.write_text(json.dumps(part))
        cfg = tlc.write_cfg(ctx.wd / f"threads-{pn}.cfg", (SPEC / "Threads.cfg").read_text().splitlines())
        res = tlc.run_tlc("Threads", cfg, ctx.wd / f"meta-thr-{pn}", env={"VERIF_GROUPS": str(gp)}, workers=2,
                          heap="4g", timeout=3000)
        if res.violated:
            raise MachineryError(f"Threads: invariant {res.violated} violated\n" + res.out[-2000:])
        tlc.require_clean(res, "Threads")
        states += res.distinct
        trans += res.states
        for m in re.finditer(r'<<"RACE", (\d+), <<([\d, ]*)>>, (\d+)>>', res.out):
            racy.setdefault(int(m.group(1)), []).append([int(x) for x in m.group(2).split(",") if x.strip()])
    r = tlc.TlcResult(rc=0, out="", states=trans, distinct=states)
    ctx.add_model(f"Threads (all interleavings of the solo access sequences of {len(groups)} groups of 2-3 "
                  "concurrent calls over a common memory)", r)
    return racy


def engine_selfcheck(ctx: Ctx) -> None:
    """The Threads model must find the classic scratch race (A:W, B:W, A:R) and must be quiet
    when the scratch is thread-confined - so that a quiet run on the real accesses means something."""
    shared = {"id": 0, "init": [[1, 9]], "threads": [[{"k": "W", "loc": 1, "val": 1}, {"k": "R", "loc": 1, "val": 1}],
                                                     [{"k": "W", "loc": 1, "val": 2}, {"k": "R", "loc": 1, "val": 2}]]}
    confined = {"id": 1, "init": [[1, 9], [2, 9]],
                "threads": [[{"k": "W", "loc": 1, "val": 1}, {"k": "R", "loc": 1, "val": 1}],
                            [{"k": "W", "loc": 2, "val": 2}, {"k": "R", "loc": 2, "val": 2}]]}
    gp = ctx.wd / "groups-selfcheck.json"
    gp.write_text(json.dumps([shared, confined]))
    cfg = tlc.write_cfg(ctx.wd / "threads-selfcheck.cfg", (SPEC / "Threads.cfg").read_text().splitlines())
    res = tlc.run_tlc("Threads", cfg, ctx.wd / "meta-thr-self", env={"VERIF_GROUPS": str(gp)}, workers=1, heap="2g")
    tlc.require_clean(res, "Threads self-check")
    found = {int(m.group(1)) for m in re.finditer(r'<<"RACE", (\d+),', res.out)}
    if found != {0}:
        raise MachineryError(f"Threads self-check: races reported for groups {found}, expected exactly group 0")
    ctx.add_model("Threads self-check (shared scratch: race found; thread-confined scratch: none)", res)


def key_of(callsl, g) -> dict:
    objs = sorted({(c.get("method") and "DE:" + c["method"]) or c["op"] for c in (callsl[i] for i in g["calls"])})
    return {"clause": "call-differs-from-solo", "objects": objs[:2]}


def warm_sweep(ctx: Ctx, rng: random.Random, key_of) -> int:
    """The line-level sweep again, but after a HISTORY: the process has already handled W distinct
    countries / keys (W = 16, 32, 64, 128 - the sizes bounded tables usually have), then thread A asks
    about something seen before while thread B brings something new. What races here is the eviction or
    re-organisation of a table that is full - unreachable from the cold state."""
    import pycountry                      # input choice only: two-letter codes to build many distinct BICs
    iso = sorted(c.alpha_2 for c in pycountry.countries if c.alpha_2 not in ("DE", "JP"))
    env = ctx.frozen(banks=False)
    rows = [r for r in ctx.table(env) if gen.row_classes(r) is not None and gen.cc_of(r) not in ("DE", "NO")]
    import c12
    keys = sorted({(e["cc"], e["code"]) for e in c12.raw_entries() if e["code"] and e["cc"] not in ("DE",)})
    fresh_key = keys.pop()
    de_codes = sorted({e["code"] for e in c12.raw_entries() if e["cc"] == "DE" and e["code"] and e["code"] != "43060967"})
    de_codes = de_codes[:: max(1, len(de_codes) // 200)]
    A = [{"op": "bic.new", "t": cps("GENODEM1GLS"), "strict": False},
         {"op": "bic.lookup", "cc": cps("DE"), "code": cps("43060967")},
         {"op": "iban.bank", "t": cps("DE42430609677000534100")},
         {"op": "iban.new", "t": cps("DE89370400440532013000"), "vb": True}]
    B = [{"op": "bic.new", "t": cps("BOTKJPJT"), "strict": False},
         {"op": "bic.lookup", "cc": cps(fresh_key[0]), "code": cps(fresh_key[1])},
         {"op": "iban.new", "t": cps("NO9386011117947"), "vb": True}]
    pairs = [(0, 0), (1, 0), (2, 0), (3, 2), (1, 1), (2, 1)]
    solo = thr_jobs(ctx, [{"mode": "solo", "calls": A + B}], "warmsolo")[0]["solo"]
    want = [canon(s["out"]) for s in solo]
    counts = thr_jobs(ctx, [{"mode": "count", "calls": A + B}], "warmcnt")[0]["count"]
    jobs, meta = [], []
    for w in ((16, 32) if ctx.quick else (8, 16, 32, 64, 128)):
        # three histories, each of exactly w distinct keys of ONE kind (so that a table of that kind is
        # exactly full), ending with the key thread A will ask about
        warms = [
            [{"op": "bic.new", "t": cps("TEST" + cc + "22"), "strict": False} for cc in iso[:w - 1]] + [A[0]],
            [{"op": "iban.new", "t": cps(gen.valid_iban(r, rng)), "vb": False} for r in rows[:w - 1]] + [A[3]],
            [{"op": "bic.lookup", "cc": cps("DE"), "code": cps(code)} for code in de_codes[:w - 1]] + [A[1]],
        ]
        for wi, warm in enumerate(warms):
            for ia, ib in pairs:
                if (wi == 0 and ib != 0) or (wi == 1 and (ia, ib) != (3, 2)) or (wi == 2 and ib != 1):
                    continue            # the new key thread B brings is of the kind the history filled
                for first, other, n in ((1, 2, counts[ia]["lines"]), (2, 1, counts[len(A) + ib]["lines"])):
                    n = min(n, 300 if ctx.quick else 4000)      # beyond the line budget nothing is scheduled anyway
                    step = 1 if not ctx.quick or n <= 60 else 2
                    for k in range(0, n + 1, step):
                        jobs.append({"mode": "lines", "calls": [A[ia], B[ib]], "warm": warm,
                                     "turns": [[first, k], [other, 10 ** 6], [first, 10 ** 6]]})
                        meta.append((ia, ib, w, k, first))
    res = thr_jobs(ctx, jobs, "warmlines")
    runs = sum(1 for r in res if not r["stuck"])
    wevents = [{"i": n, "group": -1, "order": [], "init": [], "log": [], "stuck": bool(r["stuck"]), "racy": False,
                "outs": [canon(o) for o in r["outs"]], "solo": [want[ia], want[len(A) + ib]]}
               for n, ((ia, ib, w, k, first), r) in enumerate(zip(meta, res))]
    for e, clause, _ in calls.validate(ctx, "TraceThreads", wevents, {}, "thrwarm", per_shard=4000):
        ia, ib, w, k, first = meta[e["i"]]
        ctx.violate(clause, {"clause": clause, "granularity": "line", "after_history_of": w,
                             "op": A[ia]["op"] + "+" + B[ib]["op"]},
                    {"calls": [A[ia], B[ib]], "warm_distinct": w, "split": k, "first": first, "outs": e["outs"],
                     "solo": e["solo"]})
    ctx.evaluations += len(jobs)
    ctx.coverage["line_level_runs_after_history"] = runs
    return runs


def run(ctx: Ctx) -> dict:
    if ctx.replay:
        raise MachineryError("replay for C14: the replay file holds calls and schedule; re-run ./check C14 quick")
    rng = random.Random(ctx.seed + 14)
    callsl, by_obj = menu(ctx, rng)
    # solo runs: outcome and access sequence of every call alone
    res = thr_jobs(ctx, [{"mode": "solo", "calls": callsl}], "solo")[0]
    solo = res["solo"]
    init_snapshot = dict((loc, val) for loc, val in res["init"])
    solo_out = [canon(s["out"]) for s in solo]
    # the solo outcome must itself be stable: a second process, other order
    order2 = list(range(len(callsl)))
    rng.shuffle(order2)
    res2 = thr_jobs(ctx, [{"mode": "solo", "calls": [callsl[i] for i in order2]}], "solo2")[0]["solo"]
    for pos, i in enumerate(order2):
        if canon(res2[pos]["out"]) != solo_out[i]:
            ctx.violate("solo-outcome-depends-on-history", {"clause": "solo-outcome-depends-on-history",
                                                            "op": callsl[i]["op"]}, {"call": callsl[i]})
    engine_selfcheck(ctx)
    groups = build_groups(ctx, callsl, by_obj, solo, rng)
    racy = tlc_interleavings(ctx, groups, init_snapshot)
    # replay: every racy group with (up to 3 of) its racy schedules, and every group with random schedules
    jobs, meta = [], []
    for n, g in enumerate(groups):
        scheds = [s for s in racy.get(n, [])[:3]]
        lens = [len(t) for t in g["threads"]]
        for _ in range(2 if ctx.quick else 8):
            order = [t + 1 for t, ln in enumerate(lens) for _ in range(ln)]
            rng.shuffle(order)
            scheds.append(order)
        for s in scheds:
            jobs.append({"mode": "access", "calls": [callsl[i] for i in g["calls"]], "order": s})
            meta.append((n, s, n in racy and s in racy[n][:3]))
    results = thr_jobs(ctx, jobs, "acc")
    events = []
    for (n, s, was_racy), r in zip(meta, results):
        g = groups[n]
        events.append({"i": len(events), "group": n, "order": s, "init": r["init"], "log": r["log"],
                       "stuck": bool(r["stuck"]), "outs": [canon(o) for o in r["outs"]],
                       "solo": [solo_out[i] for i in g["calls"]], "racy": was_racy})
    slim = [{k: (v if k != "init" else [x for x in v if any(x[0] == a["loc"] for a in e["log"])])
             for k, v in e.items()} for e in events]
    mism = calls.validate(ctx, "TraceThreads", slim, {}, "thr", per_shard=400)
    for e, clause, _ in mism:
        g = groups[e["group"]]
        ctx.violate(clause, dict(key_of(callsl, g), clause=clause),
                    {"calls": [callsl[i] for i in g["calls"]], "schedule": e["order"], "outs": e["outs"],
                     "solo": e["solo"]})
    # line-granularity sweep: for selected pairs, SYSTEMATICALLY every schedule of the shape
    # "A runs k lines, B runs to completion, A finishes" (and with the roles swapped) - the shape of
    # every write/overwrite/read race - over all (thorough) or evenly spaced (quick) split points k.
    # This does not depend on what the access recorder can see (module-level state, class attributes).
    fam = {}
    for i, c in enumerate(callsl):
        fam.setdefault(c["op"] + ":" + c.get("method", "") + text(c.get("cc") or c.get("country") or (c.get("t") or [])[:2]
                                            or (c.get("bic") or [])[4:6] or []), []).append(i)
    pairs = []
    for key, idxs in sorted(fam.items()):
        if key.startswith("algo.validate:"):
            # one Bundesbank method: EVERY pair of its accounts - they are of different path classes
            # (variant A against variant B of the same method is where shared state is confused)
            pairs += list(itertools.combinations(idxs, 2))
        elif len(idxs) >= 2:
            pairs.append((idxs[0], idxs[1]))            # same operation, same country, different inputs
            if len(idxs) >= 3:
                pairs.append((idxs[1], idxs[2]))
    # calls that meet at one registry key through different entry points, and a call against ITSELF:
    # what races when two threads fill the same lazily built entry for the first time (every schedule
    # runs in a cold child, see thr_probe.in_cold_child)
    bykey = {}
    for i, c in enumerate(callsl):
        if c["op"] == "bic.lookup":
            bykey.setdefault(text(c["cc"]) + ":" + text(c["code"]), []).append(i)
        elif c["op"] == "iban.bank":
            t = text(c["t"])
            for k in list(bykey):
                if t.startswith(k[:2]) and k[3:] == t[4:4 + len(k) - 3]:
                    bykey[k].append(i)
    same_key = []
    for k, idxs in sorted(bykey.items()):
        same_key += [(a, b) for a in idxs for b in idxs if a <= b]
    firsts = [idxs[0] for key, idxs in sorted(fam.items()) if not key.startswith("algo.validate:")]
    same_key += [(i, i) for i in (firsts if not ctx.quick else rng.sample(firsts, min(12, len(firsts))))]
    pairs += same_key
    keys = sorted(fam)
    for _ in range(20 if ctx.quick else 150):            # different operations
        a, b = rng.sample(keys, 2)
        pairs.append((rng.choice(fam[a]), rng.choice(fam[b])))
    if ctx.quick and len(pairs) > 110:
        same = [p for p in pairs if callsl[p[0]]["op"] == callsl[p[1]]["op"]]
        other = [p for p in pairs if p not in same]
        algo = [p for p in same if callsl[p[0]]["op"] == "algo.validate"]
        rest = [p for p in same if p not in algo]          # every other same-kind pair: always
        other = [p for p in other if p not in same_key]
        rest += [p for p in same_key if p not in rest]
        pairs = rest + algo + rng.sample(other, min(len(other), 20))
    counts = thr_jobs(ctx, [{"mode": "count", "calls": [callsl[a], callsl[b]]} for a, b in pairs], "cnt")
    ljobs, lmeta = [], []
    for (a, b), c in zip(pairs, counts):
        n1, n2 = (x["lines"] for x in c["count"])
        per_dir = 16 if ctx.quick else 10 ** 6
        for first, nfirst in ((1, n1), (2, n2)):
            nfirst = min(nfirst, 4000)                      # the line budget of a scheduled thread
            step = max(1, nfirst // per_dir)
            # quick: every second line of the first 80 (scratch is typically written early in a call)
            # plus evenly spaced points over the rest; thorough: every line
            points = sorted(set(range(0, nfirst + 1, step)) | set(range(0, min(nfirst, 80) + 1, 2)))
            for k in points:
                other = 2 if first == 1 else 1
                turns = [[first, k], [other, 10 ** 6], [first, 10 ** 6]]
                ljobs.append({"mode": "lines", "calls": [callsl[a], callsl[b]], "turns": turns})
                lmeta.append(((a, b), turns))
    # in batches: once a batch shows a call that differs from its solo outcome the remaining schedules add
    # nothing to the verdict (and a tree that makes every cold start expensive would take very long)
    order = list(range(len(ljobs)))
    random.Random(ctx.seed + 141).shuffle(order)
    lres_by = {}
    nb = 8
    for bn in range(nb):
        part = order[bn::nb]
        for i, r in zip(part, thr_jobs(ctx, [ljobs[i] for i in part], f"lines{bn}")):
            lres_by[i] = r
        if any(not r["stuck"] and [canon(o) for o in r["outs"]] != [solo_out[lmeta[i][0][0]], solo_out[lmeta[i][0][1]]]
               for i, r in lres_by.items()):
            break
    done = sorted(lres_by)
    lmeta = [lmeta[i] for i in done]
    lres = [lres_by[i] for i in done]
    line_runs = sum(1 for r in lres if not r["stuck"])
    # the verdict on every line-level run is the specification's too (JudgeThreads!RunOutcome; these runs
    # carry no access log, so it is the clause "every call gives its solo outcome" that is evaluated)
    levents = [{"i": n, "group": -1, "order": [], "init": [], "log": [], "stuck": bool(r["stuck"]), "racy": False,
                "outs": [canon(o) for o in r["outs"]], "solo": [solo_out[a], solo_out[b]]}
               for n, (((a, b), turns), r) in enumerate(zip(lmeta, lres))]
    for e, clause, _ in calls.validate(ctx, "TraceThreads", levents, {}, "thrlines", per_shard=4000):
        (a, b), turns = lmeta[e["i"]]
        ctx.violate(clause, dict(key_of(callsl, {"calls": [a, b]}), granularity="line"),
                    {"calls": [callsl[a], callsl[b]], "turns": turns, "outs": e["outs"], "solo": e["solo"]})
    ctx.evaluations += len(ljobs)
    line_runs += warm_sweep(ctx, rng, key_of)
    n_racy = len(racy)
    ctx.samples = [{"calls": [callsl[i] for i in groups[0]["calls"]], "threads": groups[0]["threads"],
                    "schedule_replayed": meta[0][1]}]
    ctx.assumptions += ["calls are deterministic given their arguments and the values they read from shared state",
                        "shared state is observed at the instance attributes of the algorithm singletons (access "
                        "granularity, exhaustive) and at source-line granularity (<= 2 preemptions, sampled)"]
    return {"rule": "groups of 2-3 concurrent calls (all pairs routed to the same algorithm object, sampled pairs on "
                    "different objects, triples): TLC explores every interleaving of their shared-state accesses; "
                    "every racy schedule and random complete schedules are replayed under a deterministic scheduler; "
                    "bounded-preemption line-level runs; distinct = distinct (group, schedule)",
            "distinct_nontrivial": len({(m[0], tuple(m[1])) for m in meta}) + line_runs, "exhaustive": False,
            "extra": {"calls": len(callsl), "groups": len(groups), "groups_with_racy_interleaving": n_racy,
                      "schedules_replayed": len(jobs), "line_level_runs": line_runs}}
