"""C10 - white space and letter case never matter; formatting round-trips."""
from __future__ import annotations

import random

import c04
import calls
import gen
import tlaparse
import tlc
from base import Ctx
from common import SPEC, MachineryError, cps, text

CLAUSES = {"variants-judged-differently", "variants-not-equal", "variants-hash-differently",
           "variants-compact-differs", "compact-differs", "compact-has-space-or-lower-case", "formatted-differs",
           "variants-misjudged", "variants-raised", "formatted-does-not-round-trip", "non-library-exception"}
WS_MODEL = [32, 9, 10, 13, 160, 12288]


def model_and_replay(ctx: Ctx, env: dict) -> dict:
    depth = 2
    ws = WS_MODEL if not ctx.quick else [32, 9, 160, 12288]
    cfg = tlc.write_cfg(ctx.wd / "MC_CleanEdits.cfg", [
        ln if not ln.startswith("CONSTANT") else
        (f"CONSTANT MaxDepth = {depth}" if "MaxDepth" in ln else "CONSTANT WS = {" + ", ".join(map(str, ws)) + "}")
        for ln in (SPEC / "MC_CleanEdits.cfg").read_text().splitlines()])
    dump = ctx.wd / "cleanedits.dump"
    res = tlc.run_tlc("MC_CleanEdits", cfg, ctx.wd / "meta-ce", env=env, workers="auto", heap="8g",
                      extra=["-dump", str(dump), "-coverage", "1"])
    if res.violated:
        raise MachineryError(f"MC_CleanEdits: invariant {res.violated} violated\n" + res.out[-2000:])
    tlc.require_clean(res, "MC_CleanEdits")
    ctx.add_model(f"MC_CleanEdits (10 seeds, <= {depth} white-space insertions / lower-casings, {len(ws)} white-space "
                  "characters, every position)", res)
    for act in ("InsertWs", "LowerOne"):
        if res.coverage.get(act, (0, 0))[1] == 0:
            raise MachineryError(f"MC_CleanEdits: action {act} never taken")
    # (B) every state of the model is replayed into the library
    ops = []
    for st in tlaparse.parse_dump(str(dump)):
        ops.append({"op": "variants", "kind": st["kind"], "t": st["seed"], "u": st["cur"], "depth": st["depth"]})
    if len(ops) != res.distinct:
        raise MachineryError(f"dump has {len(ops)} states, TLC reported {res.distinct}")
    events = calls.execute(ctx, ops, "ce")
    mism = calls.validate(ctx, "TraceCalls", events, env, "ce", per_shard=8000)
    calls.report(ctx, mism, CLAUSES)
    return {"model_states_replayed": len(ops)}


def variant_of(t: list[int], rng: random.Random, spaces: list[int]) -> list[int]:
    u = []
    for c in t:
        while rng.random() < 0.25:
            u.append(rng.choice(spaces))
        if 65 <= c <= 90 and rng.random() < 0.5:
            c += 32
        elif 97 <= c <= 122 and rng.random() < 0.5:
            c -= 32
        u.append(c)
    while rng.random() < 0.4:
        u.append(rng.choice(spaces))
    return u


def run(ctx: Ctx) -> dict:
    env = ctx.frozen(banks=False)
    if ctx.replay:
        calls.replay(ctx, "TraceCalls", env, CLAUSES)
        return {}
    extra = model_and_replay(ctx, env)
    table = ctx.table(env)
    rng = random.Random(ctx.seed + 10)
    alpha = gen.alphabet(ctx.tier)
    nonspace = [a for a in alpha if a not in gen.SPACES]
    ops = []
    rows = [r for r in table if gen.row_classes(r) is not None]
    n_texts = 1200 if ctx.quick else 150000
    for i in range(n_texts):
        kind = "iban" if i % 3 else "bic"
        if kind == "iban":
            t = cps(gen.valid_iban(rows[i % len(rows)], rng, "letters" if i % 2 else "random"))
        else:
            t = cps(rng.choice(["GENODEM1GLS", "GENODEM1", "1234DEWWXXX", "MARKDEF1100", "ABCDUS33", "AB12FRPPXXX"]))
        r = rng.random()
        if r < 0.45:                         # make it invalid in some way
            p = rng.randrange(len(t))
            t[p] = rng.choice(nonspace)
        elif r < 0.55:
            del t[rng.randrange(len(t))]
        elif r < 0.6:
            t.insert(rng.randrange(len(t) + 1), rng.choice(nonspace))
        for _ in range(2 if ctx.quick else 4):
            ops.append({"op": "variants", "kind": kind, "t": t, "u": variant_of(t, rng, gen.SPACES)})
    # all 29 white-space characters at every position of one IBAN and one BIC
    for kind, s in (("iban", "GB33BUKB20201555555555"), ("bic", "GENODEM1GLS")):
        t = cps(s)
        for w in gen.SPACES:
            for p in range(len(t) + 1):
                ops.append({"op": "variants", "kind": kind, "t": t, "u": t[:p] + [w] + t[p:]})
    # white space in EVERY gap and at both ends (as many separate runs as the text allows), single and
    # doubled, for one IBAN of every country - the longest ones have more than 32 runs - and for BICs
    for row in rows:
        t = cps(gen.valid_iban(row, rng, "letters"))
        for reps in ((1, 2) if not ctx.quick or len(t) >= 30 else (1,)):
            w = rng.choice(gen.SPACES) if reps == 2 else 32
            u = [w] * reps
            for c in t:
                u += [c] + [w if rng.random() < 0.7 else rng.choice(gen.SPACES)] * reps
            ops.append({"op": "variants", "kind": "iban", "t": t, "u": u})
    for s in ("GENODEM1GLS", "DEUTDEFF"):
        ops.append({"op": "variants", "kind": "bic", "t": cps(s), "u": cps(" " + " ".join(s) + " ")})
    # components handed to generate / from_components are input too: written with white space inside and
    # in lower case (and shorter than their field) they must give what the plain spelling gives - every
    # such call is judged by the generation verdicts (TraceGenerate: the CLEANED components are carried)
    import c08
    gops = []
    for row in rows:
        if not row["haspos"]:
            continue
        cc = gen.cc_of(row)
        wb, wr, wa = (c08.width(row, n) for n in ("bank_code", "branch_code", "account_code"))
        for k in range(2 if ctx.quick else 12):
            bank = c08.field_chars(row, "bank_code", rng, rng.choice([wb, max(wb - 1, 0)]))
            branch = c08.field_chars(row, "branch_code", rng, rng.choice([wr, max(wr - 1, 0)])) if wr else ""
            acct = c08.field_chars(row, "account_code", rng, rng.choice([wa, max(wa - 2, 1), max(wa - 1, 1)]))
            for spell in (lambda s: s, lambda s: text(variant_of(cps(s), rng, gen.SPACES)) if s else s):
                gops.append({"op": "iban.generate" if k % 2 else "bban.from_components", "cc": cps(cc),
                             "bank": cps(spell(bank)), "branch": cps(spell(branch)), "acct": cps(spell(acct))})
    gev = calls.execute(ctx, gops, "c10gen")
    calls.report(ctx, calls.validate(ctx, "TraceGenerate", gev, env, "c10gen", per_shard=3000), None, c08.keyfn)
    # characters that are NOT white space must not be ignored (zero width space, BOM, NUL ...)
    events = calls.execute(ctx, ops, "c10")
    for e in events:     # the flags must cover both texts
        j2, c2 = gen.flags(e["u"])
        e["judge"] = e["judge"] and j2
        e["cmp"] = e["cmp"] and c2
    mism = calls.validate(ctx, "TraceCalls", events, env, "c10", per_shard=6000)
    calls.report(ctx, mism, CLAUSES)
    both_ok = sum(1 for e in events if e["out"]["k"] == "ok" and e["out"]["t"]["k"] == "ok")
    both_bad = sum(1 for e in events if e["out"]["k"] == "ok" and e["out"]["t"]["k"] == "exc")
    if (both_ok == 0 or both_bad == 0) and not ctx.violations:
        raise MachineryError("vacuous: need accepted and rejected variant pairs")
    calls.three_samples(ctx, events)
    extra.update({"variant_pairs": len(events), "pairs_accepted": both_ok, "pairs_rejected": both_bad})
    return {"rule": "model states (seed, edited text) replayed + random texts (valid / one defect) x random "
                    "insertions of all 29 white-space characters and case masks; distinct = distinct (text, variant)",
            "distinct_nontrivial": len({(tuple(e["t"]), tuple(e["u"])) for e in events if e["t"] != e["u"]}),
            "exhaustive": False, "extra": extra}
