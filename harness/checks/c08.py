"""C08 - generated IBANs carry exactly the supplied components, padded, never altered."""
from __future__ import annotations

import random

import calls
import gen
import tlc
from common import run_probes_parallel as _rpp
from base import Ctx
from common import SPEC, MachineryError, cps, text

NAMES = ["account_id", "account_type", "account_code", "account_holder_id", "currency_code", "bank_code",
         "branch_code", "national_checksum_digits"]
C09_CLAUSES = {"generated-but-nationally-invalid", "rebuild-raised", "rebuilt-bban-differs",
               "rebuilt-bban-has-another-length"}


def keyfn(e, clause):
    chars = "".join(text(e.get(k, [])) for k in ("bank", "branch", "acct"))
    return {"clause": clause, "op": e.get("op"), "cls": e.get("out", {}).get("cls", ""),
            "illegal_character": any(not (c.isascii() and (c.isalnum() or c.isspace())) for c in chars),
            "letter_in_component": any(c.isalpha() for c in chars)}


def width(row, name):
    a, z = row["pos"][NAMES.index(name)]
    return z - a


def field_chars(row, name, rng, n, conforming=True):
    a, z = row["pos"][NAMES.index(name)]
    cls = row["cls"][a:z] if row["cls"] else []
    out = []
    for i in range(n):
        k = cls[i % len(cls)] if cls else 110
        out.append(rng.choice(gen.class_chars(k)))
    return "".join(out)


def component_ops(ctx: Ctx, table: list, rng: random.Random) -> list[dict]:
    ops = []
    per = 18 if ctx.quick else 90
    odd = [" ", "-", "a", "z", "\t", "ä", "٠", ".", "/", " "]
    for row in table:
        cc = gen.cc_of(row)
        if not row["haspos"] or gen.row_classes(row) is None:
            # no published positions: a library error whatever is supplied - also nothing at all
            for bank, branch, acct in (("1", "", "1"), ("", "", ""), (" ", "", "\t"), ("0", "0", "0"), ("", "", "0"),
                                       ("A", "", ""), ("", " ", "")):
                for op in ("iban.generate", "bban.from_components"):
                    ops.append({"op": op, "cc": cps(cc), "bank": cps(bank), "branch": cps(branch), "acct": cps(acct)})
            continue
        wb, wr, wa = width(row, "bank_code"), width(row, "branch_code"), width(row, "account_code")
        for i in range(per):
            op = "iban.generate" if i % 3 else "bban.from_components"
            mode = i % 9
            nb = rng.choice([wb, wb, max(wb - 1, 0), 1, 0]) if mode not in (2, 3) else (wb + 1 if mode == 2 else wb + wr)
            nr = rng.choice([wr, wr, max(wr - 1, 0), 0]) if mode != 4 else wr + 1
            na = rng.choice([wa, wa, max(wa - 1, 1), 1]) if mode != 5 else wa + 1
            if mode == 3:
                nr = rng.choice([0, 0, wr])        # combined bank code, with and without a branch code too
            bank = field_chars(row, "bank_code", rng, nb) if nb <= wb else \
                field_chars(row, "bank_code", rng, wb) + field_chars(row, "branch_code", rng, nb - wb) if wr and nb == wb + wr \
                else field_chars(row, "bank_code", rng, nb)
            branch = field_chars(row, "branch_code", rng, nr) if wr else "".join(rng.choice("0123456789") for _ in range(nr))
            acct = field_chars(row, "account_code", rng, na)
            if not wr and mode in (1, 5):      # a branch code where the country has no branch field: too long by definition
                branch = rng.choice(["1", "07", "0418"])
            if mode == 6:       # white space and lower case inside components
                bank = " ".join(bank).lower() if bank else bank
                acct = acct[:1] + " \t" + acct[1:].lower()
            if mode == 7:       # an illegal character somewhere (through both builders)
                op = "bban.from_components" if (i // 9) % 2 else "iban.generate"
                which = rng.choice(("bank", "branch", "acct"))
                ch = rng.choice(odd[1:] + ["ß", "ı"])
                if which == "bank" and bank:
                    bank = bank[:-1] + ch
                elif which == "branch" and branch:
                    branch = branch[:-1] + ch
                elif acct:
                    acct = acct[:-1] + ch
            if mode == 8:       # letters where digits are required / digits where letters are
                acct = "".join(rng.choice("ABCXYZ019") for _ in range(len(acct)))
            ops.append({"op": op, "cc": cps(cc), "bank": cps(bank), "branch": cps(branch), "acct": cps(acct)})
        # components made of zeros only: padding must not be confused with supplied zeros
        if wr:
            combined = field_chars(row, "bank_code", rng, wb) + field_chars(row, "branch_code", rng, wr)
            for zb in ("0", "0" * wr, "0" * (wr + 1)):
                ops.append({"op": "bban.from_components" if len(zb) % 2 else "iban.generate", "cc": cps(cc),
                            "bank": cps(combined), "branch": cps(zb), "acct": cps(field_chars(row, "account_code", rng, wa))})
        ops.append({"op": "iban.generate", "cc": cps(cc), "bank": cps("0" * max(wb, 1)), "branch": cps("0" * wr),
                    "acct": cps("0" * wa)})
        ops.append({"op": "bban.from_components", "cc": cps(cc), "bank": cps("0" * (wb + 1)), "branch": cps(""),
                    "acct": cps("0" * (wa + 1))})
        # a branch code supplied for a country without a branch field
        if wr == 0:
            ops.append({"op": "iban.generate", "cc": cps(cc), "bank": cps(field_chars(row, "bank_code", rng, wb)),
                        "branch": cps("12"), "acct": cps(field_chars(row, "account_code", rng, wa))})
    for cc in ("XX", "de", "", "D", "DEU", "ZZ"):
        ops.append({"op": "iban.generate", "cc": cps(cc), "bank": cps("12345678"), "branch": [], "acct": cps("1")})
    return ops


def run(ctx: Ctx, clauses_exclude=C09_CLAUSES) -> dict:
    env = ctx.frozen(banks=False)
    if ctx.replay:
        calls.replay(ctx, "TraceGenerate", env, None, keyfn)
        return {}
    import c09
    c09.model(ctx)          # MC_Generate: the step machine against the normative predicates
    rng = random.Random(ctx.seed + 8)
    table = ctx.table(env)
    import fuzz
    ops = fuzz.extend(ctx, component_ops(ctx, table, rng), "c08")
    events = calls.execute(ctx, ops, "c08")
    mism = calls.validate(ctx, "TraceGenerate", events, env, "c08", per_shard=4000)
    calls.report(ctx, [m for m in mism if m[1] not in clauses_exclude], None, keyfn)
    # one interpreter, every country after the other - forwards and backwards: whatever a country's
    # result is, it must not depend on which other countries were generated before it
    def one_pass(order):
        r = random.Random(ctx.seed + 88)
        ops1 = []
        for row in order:
            if not row["haspos"] or gen.row_classes(row) is None:
                continue
            wb, wr, wa = width(row, "bank_code"), width(row, "branch_code"), width(row, "account_code")
            ops1.append({"op": "iban.generate", "cc": cps(gen.cc_of(row)),
                         "bank": cps(field_chars(row, "bank_code", r, wb)),
                         "branch": cps(field_chars(row, "branch_code", r, wr)) if wr else [],
                         "acct": cps(field_chars(row, "account_code", r, max(wa - 1, 1)))})
        return ops1
    for tagp, order in (("fwd", table), ("bwd", list(reversed(table)))):
        ops1 = one_pass(order)
        outs = _rpp([ops1], ctx.wd, "c08" + tagp)[0]
        ev1 = []
        for op, o in zip(ops1, outs):
            e = dict(op)
            e["i"] = len(ev1)
            e["out"] = o
            ev1.append(e)
        mism1 = calls.validate(ctx, "TraceGenerate", ev1, env, "c08" + tagp, per_shard=4000)
        calls.report(ctx, [m for m in mism1 if m[1] not in clauses_exclude], None, keyfn)
        events += ev1
    okn = sum(1 for e in events if e["out"]["k"] == "ok")
    classes = {}
    for e in events:
        if e["out"]["k"] == "exc":
            classes[e["out"]["cls"]] = classes.get(e["out"]["cls"], 0) + 1
    for need in ("InvalidBankCode", "InvalidBranchCode", "InvalidAccountCode", "InvalidCountryCode"):
        if not classes.get(need) and not ctx.violations:
            raise MachineryError(f"vacuous: {need} never raised")
    if okn == 0:
        raise MachineryError("vacuous: nothing generated")
    calls.three_samples(ctx, events)
    return {"rule": "every country with positions x component strings: conforming, shorter than the field, exactly "
                    "wide, one too long (each component), combined bank+branch (with and without branch), white space "
                    "/ lower case, illegal characters, wrong classes; unknown countries; distinct = distinct argument "
                    "tuples",
            "distinct_nontrivial": len({(e["op"], tuple(e["cc"]), tuple(e["bank"]), tuple(e["branch"]), tuple(e["acct"]))
                                        for e in events}),
            "exhaustive": False, "extra": {"generated": okn, "error_classes": classes}}
