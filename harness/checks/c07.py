"""C07 - German account numbers are judged by the Bundesbank method of their bank."""
from __future__ import annotations

import itertools
import json
import random
import re

import c06
import calls
import gen
import tlaparse
import tlc
from base import Ctx
from common import REPO, SPEC, MachineryError, cps, package_dir, text

METHODS = ["00", "01", "02", "03", "04", "05", "06", "07", "08", "09", "10", "11", "13", "14", "15", "16", "17",
           "18", "19", "20", "21", "22", "23", "24", "25", "26", "28", "32", "33", "34", "38", "60", "61", "63",
           "68", "76", "88", "91", "99"]


def keyfn(e, clause):
    k = {"clause": clause, "op": e.get("op")}
    if "method" in e:
        k["method"] = e["method"]
    return k


def model(ctx: Ctx) -> list[dict]:
    digits = "{48, 57}" if ctx.quick else "{48, 51, 57}"
    cfg = tlc.write_cfg(ctx.wd / "MC_Bundesbank.cfg",
                        [ln if not ln.startswith("CONSTANT") else f"CONSTANT DigitSet = {digits}"
                         for ln in (SPEC / "MC_Bundesbank.cfg").read_text().splitlines()])
    dump = ctx.wd / "bb.dump"
    res = tlc.run_tlc("MC_Bundesbank", cfg, ctx.wd / "meta-bb", workers="auto", heap="12g",
                      extra=["-dump", str(dump)])
    if res.violated:
        raise MachineryError(f"MC_Bundesbank: transcription sanity invariant {res.violated} violated\n"
                             + res.out[-2500:])
    tlc.require_clean(res, "MC_Bundesbank")
    ctx.add_model(f"MC_Bundesbank (39 methods x all accounts over digit set {digits} at ten positions)", res)
    ops = [{"op": "algo.validate", "method": st["m"], "account": st["a"]} for st in tlaparse.parse_dump(str(dump))]
    if len(ops) != res.distinct:
        raise MachineryError(f"dump has {len(ops)} states, TLC reported {res.distinct}")
    return ops


def official_literals() -> list[tuple[str, str, bool]]:
    """(account, method, expected) literals of the Bundesbank test numbers shipped in the
    repository's test-suite; used as a check ON THE SPECIFICATION."""
    p = REPO / "tests" / "test_checksum.py"
    if not p.exists():
        return []
    src = p.read_text()
    ok_part, _, bad_part = src.partition("def test_german_checksum_success")
    out = [(a, m, True) for a, m in re.findall(r'\("(\d{10})", "DE:(\w\w)"\)', ok_part)]
    out += [(a, m, False) for a, m in re.findall(r'\("(\d{10})", "DE:(\w\w)"\)', bad_part)]
    return out


def boundary_accounts(m: str, rng: random.Random) -> list[str]:
    out = []
    if m == "08":
        out += [f"{n:010d}" for n in range(59980, 60021)] + [f"{n:010d}" for n in (5999, 6000, 6001, 0, 1, 99999)]
    if m == "99":
        out += [f"{n:010d}" for n in (395999999, 396000000, 396000001, 400000000, 450000007, 499999998, 499999999,
                                      500000000)] + [f"{rng.randrange(396000000, 500000000):010d}" for _ in range(60)]
    if m == "68":
        out += [f"{n:010d}" for n in (399999999, 400000000, 455555555, 499999999, 500000000)]
        out += ["%d%s9%s" % (rng.randrange(1, 10), f"{rng.randrange(100):02d}", f"{rng.randrange(10**6):06d}")
                for _ in range(60)]
        out += [f"{rng.randrange(10**5, 10**9):010d}" for _ in range(60)]
    if m in ("16", "23"):
        # remainder 1 (no check digit exists): valid iff the check digit repeats the digit before it
        body, cd = (9, 10) if m == "16" else (6, 7)
        found = 0
        while found < 12:
            d = [rng.randrange(10) for _ in range(10)]
            w = [2, 3, 4, 5, 6, 7]
            if sum(d[body - 1 - i] * w[i % 6] for i in range(body)) % 11 == 1:
                found += 1
                for last in (d[cd - 2], (d[cd - 2] + 1) % 10):
                    d[cd - 1] = last
                    out.append("".join(map(str, d)))
    if m in ("24", "76", "63", "26", "61", "88", "25"):
        for lead in "0123456789":
            for _ in range(12):
                out.append(lead + "".join(rng.choice("0123456789") for _ in range(9)))
    if m == "26":
        out += ["00" + "".join(rng.choice("0123456789") for _ in range(8)) for _ in range(60)]
    if m == "61":
        out += ["".join(rng.choice("0123456789") for _ in range(8)) + "8" + rng.choice("0123456789")
                for _ in range(80)]
    if m == "88":
        out += [f"{rng.randrange(100):02d}9" + "".join(rng.choice("0123456789") for _ in range(7)) for _ in range(80)]
    return out


def with_every_check_digit(acct: str, m: str) -> list[str]:
    pos = 7 if m in ("13", "17", "26", "28", "34", "61", "63", "76") else (6 if m in ("23", "91") else 9)
    return [acct[:pos] + d + acct[pos + 1:] for d in "0123456789"]


def de_bank_methods() -> dict[str, str]:
    out = {}
    p = package_dir() / "bank_registry" / "generated_de.json"
    for e in json.loads(p.read_text(encoding="utf-8")):
        out.setdefault(e["bank_code"], e.get("checksum_algo", ""))
    return out


def run(ctx: Ctx) -> dict:
    env = c06.algos_env(ctx, ctx.frozen(banks=True))
    if ctx.replay:
        calls.replay(ctx, "TraceNational", env, None, keyfn)
        return {}
    rng = random.Random(ctx.seed + 7)
    ops = model(ctx)
    n_model = len(ops)
    # official Bundesbank test numbers: the specification itself must agree with them
    lits = official_literals()
    lit_ops = [{"op": "algo.validate", "method": m, "account": cps(a), "literal": ok} for a, m, ok in lits]
    # random accounts, each with all ten values of its check digit, and boundary families
    per = 60 if ctx.quick else 4000
    for m in METHODS:
        for _ in range(per):
            acct = "".join(rng.choice("0123456789") for _ in range(10))
            if rng.random() < 0.3:
                z = rng.choice((1, 2, 3, 4, 5, 6, 7))
                acct = "0" * z + acct[z:]
            for v in with_every_check_digit(acct, m):
                ops.append({"op": "algo.validate", "method": m, "account": cps(v)})
        for acct in boundary_accounts(m, rng):
            for v in with_every_check_digit(acct, m):
                ops.append({"op": "algo.validate", "method": m, "account": cps(v)})
    # through the public API: German bank codes of the registry x accounts
    banks = de_bank_methods()
    codes = sorted(banks)
    pick = codes if not ctx.quick else rng.sample(codes, 600)
    api_ops = []
    for code in pick + ["00000000", "99999999", "12345678"]:
        for _ in range(2 if ctx.quick else 12):
            acct = "".join(rng.choice("0123456789") for _ in range(10))
            variants = with_every_check_digit(acct, banks.get(code, "00")) if rng.random() < 0.5 else [acct]
            for v in variants:
                b = code + v
                iban = "DE" + gen.check_digits("DE", b) + b
                api_ops.append({"op": rng.choice(("iban.new", "iban.validate")), "t": cps(iban), "vb": True})
                if rng.random() < 0.2:
                    api_ops.append({"op": "bban.nat", "t": cps(iban)})
    # the method is the one of the GERMAN bank with that code, whatever other countries' IBANs with the
    # same digits in their bank fields (Poland's key is 8 digits too) were looked at before
    for code in rng.sample(codes, 10) + ["71180005", "37040044"]:
        pl = code + "".join(rng.choice("0123456789") for _ in range(16))
        api_ops.append({"op": "iban.new", "t": cps("PL" + gen.check_digits("PL", pl) + pl), "vb": True})
        acct = "".join(rng.choice("0123456789") for _ in range(10))
        for v in with_every_check_digit(acct, banks.get(code, "00")):
            b = code + v
            api_ops.append({"op": "iban.new", "t": cps("DE" + gen.check_digits("DE", b) + b), "vb": True})
    # one account per PATH CLASS of every method (c14.path_class_accounts), asked directly and through
    # the IBAN of a bank that uses the method: the rare branches (remainder 1, sub-account variants ...)
    import c14
    first_bank = {}
    for code, meth in sorted(banks.items()):
        first_bank.setdefault(meth, code)
    for meth, accts in c14.path_class_accounts(ctx, rng, 9 if ctx.quick else 14, "c07").items():
        for a in accts:
            for v in with_every_check_digit(a, meth):
                ops.append({"op": "algo.validate", "method": meth, "account": cps(v)})
                if meth in first_bank and v != a and ctx.quick:
                    continue
                if meth in first_bank:
                    b = first_bank[meth] + v
                    api_ops.append({"op": "iban.new", "t": cps("DE" + gen.check_digits("DE", b) + b), "vb": True})
    import fuzz
    api_ops = fuzz.extend(ctx, api_ops, "c07api", n_seeds=800)
    ops = fuzz.extend(ctx, ops, "c07", n_seeds=1600, methods=METHODS)
    events = calls.execute(ctx, lit_ops + ops + api_ops, "c07")
    mism = calls.validate(ctx, "TraceNational", events, env, "c07", per_shard=12000)
    # the literals first: a disagreement there is a defect of the SPEC (or of spec and code alike)
    lit_bad = [(e, c) for e, c, _ in mism if "literal" in e]
    for e, c in lit_bad:
        if (e["out"].get("k") == "ok" and e["out"].get("ret")) == e["literal"]:
            raise MachineryError(f"specification disagrees with official test number {text(e['account'])} "
                                 f"method {e['method']} ({c})")
    calls.report(ctx, mism, None, keyfn)
    acc = sum(1 for e in events if e["op"] == "algo.validate" and e["out"]["k"] == "ok" and e["out"].get("ret"))
    api_acc = sum(1 for e in events if e["op"] != "algo.validate" and e["out"]["k"] == "ok")
    api_rej = sum(1 for e in events if e["op"] != "algo.validate" and e["out"]["k"] == "exc")
    if min(acc, api_acc, api_rej) == 0 and not ctx.violations:
        raise MachineryError("vacuous: need accepted and rejected accounts")
    calls.three_samples(ctx, events)
    ctx.assumptions += ["the 39 methods are transcribed from the published Bundesbank descriptions (DESIGN "
                        "Appendix A); optional second passes of 13/63/76 and remainder 10 of method 76 are not judged",
                        "the transcription agrees with every official test number shipped in tests/test_checksum.py"]
    return {"rule": "model states (39 methods x digit-set accounts), random accounts x all ten check-digit values, "
                    "boundary families per method, official test numbers, registry bank codes x accounts through "
                    "IBAN(validate_bban=True); distinct = distinct (method or bank, account)",
            "distinct_nontrivial": len({(e.get("method", ""), tuple(e.get("account") or e.get("t"))) for e in events}),
            "exhaustive": False,
            "extra": {"model_states_replayed": n_model, "official_literals": len(lits), "accounts_accepted": acc,
                      "api_accepted": api_acc, "api_rejected": api_rej, "german_bank_codes": len(pick)}}
