"""C04 - BIC acceptance is exactly the ISO 9362 structure with a known country code."""
from __future__ import annotations

import json
import random
import string

import calls
import gen
import tlc
from base import Ctx
from common import SPEC, MachineryError, cps, package_dir, text

CLAUSES = {"accepted-but-invalid", "rejected-but-valid", "compact-differs", "validate-not-true",
           "object-answers-differently-when-asked-again"}
ENTRY = ("bic.new", "bic.validate", "bic.is_valid")
SEEDS = ["AAAADEAA", "AAAADEAAAAA", "1A2BFR9Z", "1A2BFR9ZXXX"]
SIGMA1 = [65, 90, 48, 57, 97, 122, 32, 45, 95, 46, 1632, 196, 65313, 8203, 9, 0]
SIGMA2 = [65, 49, 97, 32, 45, 1632, 196, 88]
CCCHARS = list(range(65, 91)) + [49, 97]


def edit(s: tuple, sigma) -> set:
    out = set()
    for p in range(len(s)):
        for c in sigma:
            out.add(s[:p] + (c,) + s[p + 1:])
        out.add(s[:p] + s[p + 1:])
    for p in range(len(s) + 1):
        for c in sigma:
            out.add(s[:p] + (c,) + s[p:])
    return out


def model_texts() -> set:
    """The texts the bounded model MC_BicEdits submits (same edit grammar, mirrored here
    only to *replay* them; the count is compared with TLC's)."""
    seeds = [tuple(cps(s)) for s in SEEDS]
    texts = set(seeds)
    for s in seeds:
        texts |= edit(s, SIGMA1)
        for x in CCCHARS:
            for y in CCCHARS:
                texts.add(s[:4] + (x, y) + s[6:])
        for n in range(1, 7):
            texts.add(s + (65,) * n)
        for n in range(0, len(s) + 1):
            texts.add(s[:n])
        d1 = edit(s, SIGMA2)
        texts |= d1
        for u in d1:
            texts |= edit(u, SIGMA2)
    return texts


def bounded(ctx: Ctx, clauses: set) -> dict:
    cfg = ctx.wd / "MC_BicEdits.cfg"
    cfg.write_text((SPEC / "MC_BicEdits.cfg").read_text())
    res = tlc.run_tlc("MC_BicEdits", cfg, ctx.wd / "meta-bic", workers="auto", heap="8g", extra=["-coverage", "1"])
    if res.violated:
        raise MachineryError(f"MC_BicEdits: specification-level invariant {res.violated} violated:\n"
                             + "\n".join(res.out.splitlines()[-40:]))
    tlc.require_clean(res, "MC_BicEdits")
    ctx.add_model("MC_BicEdits (4 seeds, 1 wide edit over 16 symbols / all country pairs, 2 narrow edits over 8 "
                  "symbols, both modes)", res)
    for act in ("EditWide", "EditNarrow", "Submit", "Step"):
        if res.coverage.get(act, (0, 0))[1] == 0:
            raise MachineryError(f"MC_BicEdits: action {act} never taken (vacuous)")
    texts = sorted(model_texts())
    submitted = res.coverage["Submit"][0]
    if submitted != 2 * len(texts):
        raise MachineryError(f"replay set ({2 * len(texts)}) differs from the model's submitted texts ({submitted})")
    ops = []
    for t in texts:
        for strict in (False, True):
            ops.append({"op": "bic.new", "t": list(t), "strict": strict})
            ops.append({"op": "bic.validate", "t": list(t), "strict": strict})
        ops.append({"op": "bic.is_valid", "t": list(t), "strict": False})
    events = calls.execute(ctx, ops, "bicmodel")
    mism = calls.validate(ctx, "TraceCalls", events, {"VERIF_TABLE": str(ctx.wd / "empty_table.json")}, "bicmodel",
                          per_shard=30000)
    calls.report(ctx, mism, clauses)
    acc = sum(1 for e in events if e["op"] == "bic.new" and e["out"]["k"] == "ok")
    if acc == 0:
        raise MachineryError("MC_BicEdits replay: nothing accepted (vacuous)")
    return {"model_texts": len(texts), "model_replay_accepted": acc, "model_replay_events": len(events)}


def registry_bics() -> list[str]:
    """BIC strings occurring in the raw bank files (inputs only)."""
    out = set()
    for f in sorted((package_dir() / "bank_registry").glob("*.json")):
        doc = json.loads(f.read_text(encoding="utf-8"))
        ents = doc["entries"] if isinstance(doc, dict) else doc
        for e in ents:
            if e.get("bic"):
                out.add(e["bic"])
    return sorted(out)


def wide_ops(ctx: Ctx) -> list[dict]:
    rng = random.Random(ctx.seed)
    alpha = gen.alphabet(ctx.tier)
    ops = []

    def add(t, entries=("bic.new",), modes=(False, True)):
        c = cps(t) if isinstance(t, str) else list(t)
        for op in entries:
            for st in (modes if op != "bic.is_valid" else (False,)):
                ops.append({"op": op, "t": c, "strict": st})

    seeds = ["GENODEM1GLS", "GENODEM1", "1234DEWWXXX", "A1B2GB2L", "MARKDEF1100", "ZZZZZZZZ", "UNCRBA22XXX"]
    for s in seeds:
        add(s, ENTRY)
        # the same text held as a str subclass / as an unvalidated BIC object (also a str), valid and not
        for t in (s, s[:-1], s[:4] + "ZZ" + s[6:], s.lower(), "1" + s[1:]):
            for w in ("strsub", "object"):
                for st in (False, True):
                    ops.append({"op": "bic.new", "t": cps(t), "strict": st, "wrap": w})
        base = cps(s)
        for p in range(len(base)):
            for a in alpha:
                if a != base[p]:
                    add(base[:p] + [a] + base[p + 1:])
        for p in range(len(base) + 1):
            for a in (alpha if not ctx.quick else rng.sample(alpha, 12)):
                add(base[:p] + [a] + base[p:])
        for n in range(0, 15):
            add((base * 2)[:n], ENTRY)
    # all 676 letter pairs, and digit / mixed / lower-case pairs
    chars = string.ascii_uppercase + "09" + "az"
    for x in chars:
        for y in chars:
            add("ABCD" + x + y + "2L", ("bic.new",))
            if not ctx.quick:
                add("AB12" + x + y + "2LXXX", ("bic.new",))
    # registry BICs and one-character corruptions of them
    bics = registry_bics()
    pick = bics if not ctx.quick else rng.sample(bics, min(1500, len(bics)))
    for b in pick:
        add(b, ("bic.new",))
        c = cps(b)
        p = rng.randrange(len(c))
        c[p] = rng.choice(alpha)
        add(c, (rng.choice(ENTRY),))
    # random texts around valid shapes
    for _ in range(3000 if ctx.quick else 300000):
        n = rng.choice((8, 11, 8, 11, 7, 9, 10, 12))
        t = [ord(rng.choice(string.ascii_uppercase + string.digits)) for _ in range(n)]
        if n >= 6 and rng.random() < 0.8:
            cc = rng.choice(["DE", "FR", "GB", "US", "XK", "ZZ", "AA", "CH", "SS", "AN", "UK", "EU"])
            t[4], t[5] = ord(cc[0]), ord(cc[1])
        for _ in range(rng.choice((0, 0, 1, 2))):
            p = rng.randrange(len(t) + 1)
            if rng.random() < 0.6 and p < len(t):
                t[p] = rng.choice(alpha)
            else:
                t.insert(p, rng.choice(alpha))
        add(t, (rng.choice(ENTRY),), (rng.random() < 0.5,))
    return ops


def empty_table(ctx: Ctx) -> dict:
    p = ctx.wd / "empty_table.json"
    p.write_text("[]")
    return {"VERIF_TABLE": str(p)}


def run(ctx: Ctx, clauses: set = CLAUSES) -> dict:
    env = empty_table(ctx)
    if ctx.replay:
        rep = json.loads(ctx.replay.read_text())
        ops = [{"op": v["detail"]["op"], "t": v["detail"]["t"], "strict": v["detail"].get("strict", False)}
               for v in rep["violations"] if "t" in v["detail"]]
        events = calls.execute(ctx, ops, "replay")
        calls.report(ctx, calls.validate(ctx, "TraceCalls", events, env, "replay"), clauses)
        return {}
    extra = bounded(ctx, clauses)
    import fuzz
    ops = fuzz.extend(ctx, wide_ops(ctx), "c04")            # plus coverage-chosen mutants (every branch)
    events = calls.execute(ctx, ops, "wide")
    mism = calls.validate(ctx, "TraceCalls", events, env, "wide", per_shard=20000)
    calls.report(ctx, mism, clauses)
    accepted = sum(1 for e in events if e["out"]["k"] == "ok" and e["op"] == "bic.new")
    if accepted == 0:
        raise MachineryError("vacuous: no BIC accepted")
    distinct = len({(tuple(e["t"]), e["op"], e.get("strict")) for e in events})
    ctx.samples = [calls.describe_event(e) for e in (events[0], events[len(events) // 2], events[-1])]
    for s in ctx.samples:
        s.pop("t", None)
    ctx.assumptions += ["ISO 3166-1 = the 249 codes written literally in spec/Iso3166.tla",
                        "texts with one of the 17 ambiguous-upper-case characters are not judged for acceptance"]
    extra.update({"wide_events": len(events), "accepted": accepted, "registry_bics": len(registry_bics()),
                  "alphabet_size": len(gen.alphabet(ctx.tier))})
    return {"rule": "7 seed BICs x every position x every alphabet character (substitution and insertion), every "
                    "length 0..14, every country pair over [A-Z09az], registry BICs and corruptions, random edits, "
                    "both modes, three entry points; distinct = distinct (text, entry point, mode)",
            "distinct_nontrivial": distinct, "exhaustive": False, "extra": extra}
