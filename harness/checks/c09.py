"""C09 - computed national check digits validate; parsing and rebuilding round-trips."""
from __future__ import annotations

import itertools
import random

import c06
import c08
import calls
import gen
import synth
import tlc
from base import Ctx
from common import SPEC, MachineryError, cps, text

COMPUTING = "BE BA ES FR MC IT SM FI NO PL EE PT RS ME MK SI TL MR TN".split()
CLAUSES = {"generated-but-nationally-invalid", "rebuild-raised", "rebuilt-bban-differs",
           "rebuilt-bban-has-another-length", "non-library-exception", "generated-iban-invalid",
           "rejected-but-nationally-valid", "accepted-but-nationally-invalid"}

LAYOUTS = {   # the four synthetic layouts of MC_Generate as countries of a scratch table
    "XA": synth.country("4!c", 4, {"bank_code": [0, 2], "account_code": [2, 4]}, "XA"),
    "XB": synth.country("6!c", 6, {"bank_code": [0, 1], "branch_code": [1, 3], "account_code": [3, 6]}, "XB"),
    "XC": synth.country("5!c", 5, {"branch_code": [0, 2], "account_code": [2, 5]}, "XC"),
    "XD": synth.country("6!c", 6, {"bank_code": [0, 2], "branch_code": [2, 3], "account_code": [4, 6],
                                   "national_checksum_digits": [3, 4]}, "XD"),
}
WIDTHS = {"XA": (2, 0, 2), "XB": (1, 2, 3), "XC": (0, 2, 3), "XD": (2, 1, 2)}


def keyfn(e, clause):
    cc = text(e.get("cc") or e.get("t", [])[:2] or e.get("country", []))
    return {"clause": clause, "op": e.get("op"), "country": cc[:2].upper()}


def model(ctx: Ctx) -> None:
    """MC_Generate, and every component triple of the model through the real from_components /
    generate running on a scratch table that holds the model's four layouts."""
    sigma = [48, 49] if ctx.quick else [48, 49, 32]      # '0' matters: padding vs supplied zeros
    cfg = tlc.write_cfg(ctx.wd / "MC_Generate.cfg",
                        [ln if not ln.startswith("CONSTANT") else "CONSTANT Sigma = {" + ", ".join(map(str, sigma)) + "}"
                         for ln in (SPEC / "MC_Generate.cfg").read_text().splitlines()])
    res = tlc.run_tlc("MC_Generate", cfg, ctx.wd / "meta-gen", workers="auto", heap="12g", timeout=3000,
                      extra=["-coverage", "1"])
    if res.violated:
        raise MachineryError(f"MC_Generate: invariant {res.violated} violated\n" + res.out[-2500:])
    tlc.require_clean(res, "MC_Generate")
    ctx.add_model(f"MC_Generate (4 layouts x every component triple over {len(sigma)} symbols up to field width + 1)",
                  res)
    for act in ("Pad", "Split", "Guard", "Place"):
        if res.coverage.get(act, (0, 0))[1] == 0:
            raise MachineryError(f"MC_Generate: action {act} never taken")

    def strings(n):
        for m in range(n + 1):
            for tup in itertools.product(sigma, repeat=m):
                yield list(tup)

    ops = []
    for cc, (wb, wr, wa) in WIDTHS.items():
        for bank in strings(wb + wr + 1):
            for branch in strings(wr + 1):
                for acct in strings(wa + 1):
                    ops.append({"op": "bban.from_components", "cc": cps(cc), "bank": bank, "branch": branch,
                                "acct": acct})
    if len(ops) != res.init_states:
        raise MachineryError(f"replay set {len(ops)} differs from the model's initial states {res.init_states}")
    ops += [dict(o, op="iban.generate") for o in ops[::7]]
    from common import package_dir
    import json
    files = {f.name: json.loads(f.read_text(encoding="utf-8"))
             for f in sorted((package_dir() / "iban_registry").glob("*.json"))}
    files["zz_model_layouts.json"] = LAYOUTS
    with synth.scratch_package(files, None, "c09gen") as (root, pkg):
        env = ctx.frozen(banks=False, pkg=pkg, tag="layouts")
        events = calls.execute(ctx, ops, "genmodel", extra_path=root)
        mism = calls.validate(ctx, "TraceGenerate", events, env, "genmodel", per_shard=6000)
    calls.report(ctx, mism, None, c08.keyfn)
    ctx.coverage["model_triples_replayed"] = len(ops)


def run(ctx: Ctx) -> dict:
    env = c06.algos_env(ctx, ctx.frozen(banks=True))
    if ctx.replay:
        calls.replay(ctx, "TraceGenerate", env, None, keyfn)
        return {}
    rng = random.Random(ctx.seed + 9)
    table = {gen.cc_of(r): r for r in ctx.table(env)}
    c06.model(ctx, "{48, 57}")   # invariant ComputedDigitsValidate (spec level)
    # (i) generation and random draws in the 19 computing countries validate nationally
    ops = []
    per = 40 if ctx.quick else 1500
    for cc in COMPUTING:
        row = table.get(cc)
        if row is None or gen.row_classes(row) is None:
            continue
        wb, wr, wa = (c08.width(row, n) for n in ("bank_code", "branch_code", "account_code"))
        for i in range(per):
            bank = c08.field_chars(row, "bank_code", rng, rng.choice([wb, wb, max(wb - 1, 1)]))
            branch = c08.field_chars(row, "branch_code", rng, rng.choice([wr, wr, max(wr - 1, 0)])) if wr else ""
            acct = c08.field_chars(row, "account_code", rng, rng.choice([wa, wa, max(wa - 2, 1), 1]))
            if i % 5 == 4:          # formatted input: white space inside (possibly short) components
                acct = acct[:1] + " " + acct[1:]
                bank = bank[:1] + " " + bank[1:] if i % 10 == 9 else bank
            if not wr and i % 8 == 3:
                branch = rng.choice(["1", "07", "0418"])      # no branch field: must be refused, not half-used
            ops.append({"op": "iban.generate", "cc": cps(cc), "bank": cps(bank), "branch": cps(branch),
                        "acct": cps(acct)})
        for seed in range(per // 2):
            ops.append({"op": "iban.random", "country": cps(cc), "seed": ctx.seed * 100003 + seed,
                        "use_registry": bool(seed % 2)})
        # the BBAN-level builder, with components the caller leaves out altogether (not passed = nothing
        # supplied = zeros): what it builds must validate nationally like everything else
        for i in range(6 if ctx.quick else 60):
            bank = c08.field_chars(row, "bank_code", rng, wb)
            acct = c08.field_chars(row, "account_code", rng, rng.choice([wa, max(wa - 1, 1)]))
            omit = [["branch"], ["branch"], [], ["bank"], ["acct"], ["branch", "bank"]][i % 6]
            ops.append({"op": "bban.from_components", "cc": cps(cc), "bank": [] if "bank" in omit else cps(bank),
                        "branch": [] if "branch" in omit or not wr or i % 2 else cps(c08.field_chars(row, "branch_code", rng, wr)),
                        "acct": [] if "acct" in omit else cps(acct), "omit": omit})
    events = calls.execute(ctx, ops, "c09gen")
    gen_events = [e for e in events if e["op"] in ("iban.generate", "bban.from_components")]
    calls.report(ctx, [m for m in calls.validate(ctx, "TraceGenerate", gen_events, env, "c09gen", per_shard=3000)
                       if m[1] in CLAUSES], None, keyfn)
    # every IBAN the library built or drew goes back in with national validation on
    back = []
    for e in events:
        if e["out"]["k"] == "ok" and e["op"] == "bban.from_components":
            b = text(e["out"]["val"])
            back.append({"op": "iban.new", "t": cps(text(e["cc"]) + gen.check_digits(text(e["cc"]), b) + b)
                         if b.isascii() and b.isalnum() else e["out"]["val"], "vb": True, "from": e["op"]})
        elif e["out"]["k"] == "ok":
            back.append({"op": "iban.new", "t": e["out"]["val"], "vb": True, "from": e["op"]})
        elif e["op"] == "iban.random" and not e["out"].get("lib"):
            ctx.violate("non-library-exception", keyfn(e, "non-library-exception"), calls.describe_event(e))
    bev = calls.execute(ctx, back, "c09back")
    calls.report(ctx, calls.validate(ctx, "TraceNational", bev, env, "c09back", per_shard=6000), None, keyfn)
    # (ii) parse -> rebuild on nationally valid IBANs of every country with positions
    bodies, plain = [], []
    per2 = 15 if ctx.quick else 400
    for cc, row in sorted(table.items()):
        if not row["haspos"] or gen.row_classes(row) is None:
            continue
        for i in range(per2):
            b = gen.bban_for(row, rng, ("random", "letters", "high", "low")[i % 4])
            if cc in c06.NAT:
                bodies.append({"cc": cps(cc), "b": cps(b)})
            else:
                plain.append(cc + gen.check_digits(cc, b) + b)
    fixed = c06.nat_gen(ctx, bodies, "rebuild")
    rops = [{"op": "iban.rebuild", "t": cps(t)} for t in plain]
    for bd, fx in zip(bodies, fixed):
        if fx["ok"] and fx["settled"]:
            cc = text(bd["cc"])
            rops.append({"op": "iban.rebuild", "t": cps(c06.iban_of(cc, text(fx["b"])))})
    rev = calls.execute(ctx, rops, "c09rebuild")
    calls.report(ctx, calls.validate(ctx, "TraceGenerate", rev, env, "c09rebuild", per_shard=3000), None, keyfn)
    built = sum(1 for e in events if e["out"]["k"] == "ok")
    rebuilt = sum(1 for e in rev if e["out"]["k"] == "ok")
    if (built == 0 or rebuilt == 0) and not ctx.violations:
        raise MachineryError("vacuous")
    calls.three_samples(ctx, events + rev)
    return {"rule": "19 computing countries x generated (conforming / shorter components) and seeded random IBANs, "
                    "each re-validated with national validation and judged by the published algorithm; every country "
                    "with positions x nationally valid IBANs (reference-computed digits) parsed and rebuilt; distinct "
                    "= distinct argument tuples / IBANs",
            "distinct_nontrivial": len({str(sorted((k, str(v)) for k, v in e.items() if k not in ("out", "i")))
                                        for e in events + rev}),
            "exhaustive": False,
            "extra": {"generated_or_drawn": built, "revalidated": len(bev), "rebuilt": rebuilt}}
