"""C13 - random generation is always valid, honours pinned fields, and is reproducible."""
from __future__ import annotations

import json
import random
import subprocess

import c08
import calls
import gen
import tlc
from base import Ctx
from common import HARNESS, PYTHON, SPEC, MachineryError, cps, py_env, text

NAMES = c08.NAMES


def keyfn(e, clause):
    base = clause.split(":")[0]
    k = {"clause": base, "op": e.get("op")}
    if ":" in clause:
        k["component"] = clause.split(":")[1]
    if base in ("pinned-component-changed",):
        k["use_registry"] = e.get("use_registry")
    return k


def pinned_value(row, name, rng):
    a, z = row["pos"][NAMES.index(name)]
    return "".join(rng.choice(gen.class_chars(k)) for k in row["cls"][a:z])


def build_ops(ctx: Ctx, table: list, rng: random.Random) -> list[dict]:
    ops = []
    nseeds = 3 if ctx.quick else 200
    for row in table:
        cc = gen.cc_of(row)
        if gen.row_classes(row) is None:
            continue
        defined = [n for n in NAMES if row["pos"][NAMES.index(n)] != [0, 0]]
        subsets = [[]] + [[n] for n in defined]
        if len(defined) >= 2:
            subsets += [list(p) for p in (rng.sample(defined, 2) for _ in range(2 if ctx.quick else 6))]
        for sub in subsets:
            for s in range(nseeds if sub else nseeds * 2):
                vals = {n: cps(pinned_value(row, n, rng)) if n in sub else [] for n in NAMES}
                ops.append({"op": "iban.random" if s % 3 else "bban.random", "country": cps(cc),
                            "seed": ctx.seed * 7919 + s, "use_registry": bool((s + len(sub)) % 2), "pinned": sub,
                            "vals": vals})
    for s in range(60 if ctx.quick else 2000):          # the no-country form
        ops.append({"op": "iban.random" if s % 2 else "bban.random", "country": [], "seed": ctx.seed * 104729 + s,
                    "use_registry": True, "pinned": [], "vals": {n: [] for n in NAMES}})
    for cc in ("XX", "de"):
        ops.append({"op": "iban.random", "country": cps(cc), "seed": 1, "use_registry": True, "pinned": [],
                    "vals": {n: [] for n in NAMES}})
    return ops


def cross_process(ctx: Ctx, ops: list[dict], events: list[dict], repro: list[dict]) -> int:
    """Identical result in other processes and under other hash seeds."""
    sample = [i for i in range(0, len(ops), max(1, len(ops) // (400 if ctx.quick else 4000)))]
    sub = [ops[i] for i in sample]
    bad = 0
    ip = ctx.wd / "xproc-ops.json"
    ip.write_text(json.dumps(sub))
    for hs in ("1", "4242", "random"):
        op = ctx.wd / f"xproc-out-{hs}.json"
        r = subprocess.run([PYTHON, str(HARNESS / "probe.py"), str(ip), str(op)], env=py_env(None, hs),
                           capture_output=True, text=True)
        if r.returncode != 0:
            raise MachineryError("cross-process probe failed: " + r.stderr[-500:])
        outs = json.loads(op.read_text())
        for i, o in zip(sample, outs):
            e = events[i]
            # judged by JudgeRandom!ReproOutcome: the two observations as comparable values
            def obs(x):
                return [ord(c) for c in json.dumps([x["k"], x.get("val"), x.get("cls")])]
            repro.append({"op": "repro", "where": "elsewhere", "i": len(repro), "first": obs(e["out"]), "second": obs(o),
                          "call": i, "hashseed": hs, "other": o})
    return len(sample) * 3


def run(ctx: Ctx) -> dict:
    env = ctx.frozen(banks=True)
    if ctx.replay:
        calls.replay(ctx, "TraceRandom", env, None, keyfn)
        return {}
    import c13model
    c13model.run_model(ctx)
    rng = random.Random(ctx.seed + 13)
    table = ctx.table(env)
    import fuzz
    ops = fuzz.extend(ctx, build_ops(ctx, table, rng), "c13", n_seeds=600, quick=1500, thorough=40000)
    events = calls.execute(ctx, ops, "c13")
    mism = calls.validate(ctx, "TraceRandom", events, env, "c13", per_shard=1500 if ctx.quick else 4000)
    calls.report(ctx, mism, None, keyfn)
    repro = [{"op": "repro", "where": "process", "i": n, "first": [1], "second": [1 if e["out"].get("again_same", True) else 0],
              "call": n} for n, e in enumerate(events) if e["out"]["k"] == "ok"]
    compared = cross_process(ctx, ops, events, repro)
    for r, clause, _ in calls.validate(ctx, "TraceRandom", repro, env, "c13repro", per_shard=20000):
        e = events[r["call"]]
        ctx.violate(clause, {"clause": clause, "op": e["op"]},
                    dict(calls.describe_event(e), hashseed=r.get("hashseed"), other=r.get("other")))
    okn = sum(1 for e in events if e["out"]["k"] == "ok")
    over = sum(1 for e in events if e["out"].get("cls") == "GenerateRandomOverflowError")
    if okn == 0:
        raise MachineryError("vacuous: nothing drawn")
    calls.three_samples(ctx, events)
    ctx.assumptions += ["pinned values are exactly field-wide and class-conforming (others are out of the property's "
                        "scope)", "a registry draw must be a listed bank only when no bank-identifying component is "
                                  "pinned"]
    return {"rule": "every country (and the no-country form) x seeds x registry on/off x pinned subsets (each defined "
                    "component singly, some pairs); each result also reproduced in-process with a plain Random and in "
                    "3 other processes under other hash seeds; distinct = distinct argument tuples",
            "distinct_nontrivial": len({json.dumps([e["op"], e["country"], e["seed"], e["use_registry"], e["pinned"]])
                                        for e in events}),
            "exhaustive": False,
            "extra": {"draws": len(events), "results": okn, "overflows": over, "cross_process_comparisons": compared}}
