"""C01 - IBAN acceptance is exactly the ISO 13616 rule set over the bundled country table."""
from __future__ import annotations

import itertools
import random
import string

import calls
import gen
import synth
import tlc
from base import Ctx
from common import SPEC, MachineryError, cps, text

CLAUSES = {"accepted-but-invalid", "rejected-but-valid", "compact-differs", "compact-not-alnum-34",
           "validate-not-true", "object-answers-differently-when-asked-again"}
SIGMA_QUICK = [65, 66, 53, 55, 56, 97, 32, 1632]
SIGMA_FULL = SIGMA_QUICK + [45]
ENTRY = ("iban.new", "iban.validate", "iban.is_valid")


def small_scope(ctx: Ctx, maxlen: int, sigma: list[int], clauses: set | None = None) -> dict:
    """(A) exhaustive model over a synthetic table + (B) the same texts through the real
    library running on that same table."""
    with synth.scratch_package(synth.SMALL_IBAN_FILES, synth.SMALL_BANK_FILES, "c01small") as (root, pkg):
        env = ctx.frozen(banks=False, pkg=pkg, tag="small")
        cfg = tlc.write_cfg(ctx.wd / "MC_IbanSmall.cfg",
                            [ln if not ln.startswith("CONSTANT") else
                             (f"CONSTANT MaxLen = {maxlen}" if "MaxLen" in ln else
                              "CONSTANT Sigma = {" + ", ".join(map(str, sigma)) + "}")
                             for ln in (SPEC / "MC_IbanSmall.cfg").read_text().splitlines()])
        res = tlc.run_tlc("MC_IbanSmall", cfg, ctx.wd / "meta-small", env=env, workers="auto", heap="12g",
                          extra=["-coverage", "1"])
        if res.violated:
            raise MachineryError(f"MC_IbanSmall: specification-level invariant {res.violated} violated:\n"
                                 + "\n".join(res.out.splitlines()[-40:]))
        tlc.require_clean(res, "MC_IbanSmall")
        ctx.add_model(f"MC_IbanSmall (all texts over {len(sigma)} symbols, length<={maxlen}, 5 synthetic countries)", res)
        # (B) the same input space through the real code
        ops = []
        for n in range(0, maxlen + 1):
            for tup in itertools.product(sigma, repeat=n):
                t = list(tup)
                ops.append({"op": "iban.new", "t": t, "vb": False})
                if n <= maxlen - 1:
                    ops.append({"op": "iban.validate", "t": t, "vb": False})
                    ops.append({"op": "iban.is_valid", "t": t})
        events = calls.execute(ctx, ops, "small", extra_path=root)
        accepted = {}
        for e in events:
            if e["op"] == "iban.new" and e["out"]["k"] == "ok":
                k = text(e["out"]["val"])[:2]
                accepted[k] = accepted.get(k, 0) + 1
        mism = calls.validate(ctx, "TraceCalls", events, env, "small", per_shard=40000)
        calls.report(ctx, mism, clauses or CLAUSES)
        for cc in ("AA", "AB", "BA", "BB"):
            if cc not in accepted and not ctx.violations:
                # every synthetic country must have accepted texts, else the model is vacuous
                raise MachineryError(f"small-scope model vacuous: no accepted text for {cc}: {accepted}")
        return {"small_inputs": len(ops), "small_accepted_by_prefix": accepted}


def wide_ops(ctx: Ctx, table: list) -> list[dict]:
    rng = random.Random(ctx.seed)
    alpha = gen.alphabet(ctx.tier)
    ops = []

    def add(t: str | list, entries=("iban.new",)):
        c = cps(t) if isinstance(t, str) else t
        for op in entries:
            ops.append({"op": op, "t": c, "vb": False})

    n_seeds = 1 if ctx.quick else 3
    import c06
    natvalid = {}
    for iban in c06.national_valid_ibans(ctx, {gen.cc_of(r): r for r in table}, rng, 1 if ctx.quick else 2, "c01"):
        natvalid.setdefault(iban[:2], []).append(iban)
    for row in table:
        pool = [gen.valid_iban(row, rng, (["random", "low", "high"][k % 3] if not ctx.quick else "random"))
                for k in range(n_seeds)] + natvalid.get(gen.cc_of(row), [])
        # valid IBANs whose BBAN repeats its own prefix or spells a word software may react to
        cc0 = gen.cc_of(row)
        for b in gen.echo_bbans(row, rng) + gen.word_bbans(row, rng):
            add(cc0 + gen.check_digits(cc0, b) + b, ENTRY)
        for k, iban in enumerate(pool):
            if iban is None:
                continue
            add(iban, ENTRY)
            if k == 0:
                # the same texts held as a str subclass / as an unvalidated IBAN object (also a str)
                bad = [iban[:-1] + ("0" if iban[-1] != "0" else "1"), iban[:-1], iban[:5] + "-" + iban[6:],
                       "ZZ" + iban[2:], iban.lower()]
                for t in [iban] + bad:
                    for w in ("strsub", "object"):
                        ops.append({"op": "iban.new", "t": cps(t), "vb": False, "wrap": w})
            base = cps(iban)
            # every position x every alphabet character (substitution)
            for p in range(len(base)):
                for a in alpha:
                    if a != base[p]:
                        add(base[:p] + [a] + base[p + 1:])
            if k == 0:
                # every length 0..40: truncate / extend with a conforming character
                for n in range(0, 41):
                    add(base[:n] if n <= len(base) else base + [base[-1]] * (n - len(base)))
                # insertion and deletion at every position
                for p in range(len(base) + 1):
                    add(base[:p] + [rng.choice(alpha)] + base[p:])
                for p in range(len(base)):
                    add(base[:p] + base[p + 1:])
                # all 100 check digit pairs
                for dd in range(100):
                    add(iban[:2] + f"{dd:02d}" + iban[4:])
    # the aliases 00 / 01 / 99 of the canonical digits 97 / 98 / 02 leave remainder 1 too: never valid
    import c02
    for row in table:
        if gen.row_classes(row) is None:
            continue
        cc = gen.cc_of(row)
        for b in c02.bbans_for(row, rng, 0):
            d = gen.check_digits(cc, b)
            alias = {"97": "00", "98": "01", "02": "99"}.get(d)
            if alias:
                add(cc + alias + b, ENTRY)
                add(cc + d + b)
    # every two-character prefix over [A-Za-z0-9] on three bodies
    bodies = [r for r in table if gen.cc_of(r) in ("DE", "GB", "NO")]
    chars = string.ascii_uppercase + string.digits + string.ascii_lowercase
    for row in bodies if not ctx.quick else bodies[:1]:
        iban = gen.valid_iban(row, rng)
        for x in chars:
            for y in chars:
                add(x + y + iban[2:])
    # every two-character prefix with check digits that are RIGHT for that prefix: only the
    # table decides now (an unknown or foreign prefix must still be rejected)
    up = string.ascii_uppercase + string.digits
    for row in bodies:
        body = gen.bban_for(row, rng)
        for x in up:
            for y in up:
                if x.isalpha() and y.isalpha():
                    add(x + y + gen.check_digits(x + y, body) + body)
    # random near-valid and random wild texts
    nrand = 3000 if ctx.quick else 60000
    rows = [r for r in table if gen.row_classes(r) is not None]
    for _ in range(nrand):
        iban = cps(gen.valid_iban(rng.choice(rows), rng))
        for _ in range(rng.choice((0, 1, 1, 2, 3))):
            kind = rng.random()
            p = rng.randrange(len(iban) + 1)
            if kind < 0.4 and p < len(iban):
                iban[p] = rng.choice(alpha)
            elif kind < 0.6:
                iban.insert(p, rng.choice(alpha))
            elif kind < 0.8 and p < len(iban):
                del iban[p]
            elif p + 1 < len(iban):
                iban[p], iban[p + 1] = iban[p + 1], iban[p]
        add(iban, (rng.choice(ENTRY),))
    return ops


def run(ctx: Ctx) -> dict:
    extra = {}
    if ctx.replay:
        import json
        with open(ctx.replay) as fp:
            rep = json.load(fp)
        env = ctx.frozen(banks=False)
        ops = [{"op": v["detail"]["op"], "t": v["detail"]["t"], "vb": v["detail"].get("vb", False)}
               for v in rep["violations"] if "t" in v["detail"]]
        events = calls.execute(ctx, ops, "replay")
        calls.report(ctx, calls.validate(ctx, "TraceCalls", events, env, "replay"), CLAUSES)
        return {}
    extra.update(small_scope(ctx, 6, SIGMA_QUICK if ctx.quick else SIGMA_FULL))
    env = ctx.frozen(banks=False)
    table = ctx.table(env)
    import fuzz
    ops = fuzz.extend(ctx, wide_ops(ctx, table), "c01")     # plus coverage-chosen mutants (every branch)
    events = calls.execute(ctx, ops, "wide")
    mism = calls.validate(ctx, "TraceCalls", events, env, "wide", per_shard=20000)
    calls.report(ctx, mism, CLAUSES)
    accepted = sum(1 for e in events if e["out"]["k"] == "ok" and e["op"] == "iban.new")
    rejected = sum(1 for e in events if e["out"]["k"] == "exc")
    countries_accepted = len({text(e["out"]["val"])[:2] for e in events
                              if e["out"]["k"] == "ok" and e["op"] == "iban.new"})
    if countries_accepted < len([r for r in table if gen.row_classes(r) is not None]) and not ctx.violations:
        raise MachineryError(f"vacuous: accepted IBANs for only {countries_accepted} countries")
    distinct = len({(tuple(e["t"]), e["op"]) for e in events})
    ctx.samples = [calls.describe_event(e) for e in (events[0], events[len(events) // 3], events[-1])]
    for s in ctx.samples:
        s.pop("t", None)
    ctx.assumptions += [
        "TLC evaluates the specification faithfully; CPython's re/str as environment",
        "texts containing one of the 17 characters whose Unicode upper-casing contains ASCII alphanumerics are "
        "not judged for acceptance (either reading of 'upper-casing' satisfies the property)",
        "countries whose own table entry is inconsistent (C17) are not judged",
    ]
    extra.update({"wide_events": len(events), "accepted": accepted, "rejected": rejected,
                  "countries_with_accepted_iban": countries_accepted,
                  "alphabet_size": len(gen.alphabet(ctx.tier))})
    return {"rule": "every country x every position x every alphabet character, every length 0..40, all 100 "
                    "check-digit pairs, every two-character prefix, random edits; distinct = distinct (text, entry "
                    "point) pairs; all are non-trivial (each is judged by Valid over the spec-merged table)",
            "distinct_nontrivial": distinct, "exhaustive": False, "extra": extra}
