"""C16 - IBAN, BIC and BBAN are string values: equality, hashing, order and copies agree."""
from __future__ import annotations

import random

import c04
import calls
import gen
import tlaparse
import tlc
from base import Ctx
from common import SPEC, MachineryError, cps, text

COPY_OPS = ["copy", "deepcopy", "pickle0", "pickle1", "pickle2", "pickle3", "pickle4", "pickle5"]
KINDS = ["cmp", "hash", "dict", "sort", "props", "container"]


def keyfn(e, clause):
    vias = sorted(set(e.get("a", {}).get("via", []) + e.get("b", {}).get("via", [])))
    classes = sorted({o["cls"] for o in (e.get("a"), e.get("b")) if o and o.get("via")})
    return {"clause": clause, "kind": e.get("kind"), "copied_classes": classes,
            "copy_ops": ["pickle" if v.startswith("pickle") else v for v in vias][:1]}


def model(ctx: Ctx) -> list[dict]:
    cfg = tlc.write_cfg(ctx.wd / "MC_Values.cfg",
                        [ln.replace("MaxVia = 1", f"MaxVia = {1 if ctx.quick else 2}")
                         for ln in (SPEC / "MC_Values.cfg").read_text().splitlines()])
    dump = ctx.wd / "values.dump"
    res = tlc.run_tlc("MC_Values", cfg, ctx.wd / "meta-val", workers="auto", heap="8g", timeout=3000,
                      extra=["-dump", str(dump), "-coverage", "1"])
    if res.violated:
        raise MachineryError(f"MC_Values: invariant {res.violated} violated\n" + res.out[-2500:])
    tlc.require_clean(res, "MC_Values")
    ctx.add_model("MC_Values (13 base objects^2, <= 1-2 copy operations each, 5 observations)", res)
    ops = []
    for st in tlaparse.parse_dump(str(dump)):
        if st["op"] != "none":
            ops.append({"op": "values", "kind": st["op"], "a": st["a"], "b": st["b"]})
    if ctx.quick is False and len(ops) > 400000:
        ops = random.Random(ctx.seed).sample(ops, 400000)
    return ops


def obj(cls, t, cc="", via=()):
    return {"cls": cls, "text": cps(t), "cc": cps(cc), "via": list(via)}


def run(ctx: Ctx) -> dict:
    if ctx.replay:
        calls.replay(ctx, "TraceValues", {}, None, keyfn)
        return {}
    ops = model(ctx)
    n_model = len(ops)
    rng = random.Random(ctx.seed + 16)
    env = ctx.frozen(banks=False)
    table = [r for r in ctx.table(env) if gen.row_classes(r) is not None]
    # a population of real objects: valid and invalid IBANs, their BBANs, BICs, plain strings
    pop = []
    for _ in range(60 if ctx.quick else 700):
        row = rng.choice(table)
        iban = gen.valid_iban(row, rng)
        cc = gen.cc_of(row)
        spaced = " ".join(iban[i:i + 4] for i in range(0, len(iban), 4)).lower()
        bad = iban[:-1] + ("0" if iban[-1] != "0" else "1")
        pop += [obj("IBAN", iban), obj("IBAN", spaced), obj("IBAN", bad), obj("BBAN", iban[4:], cc),
                obj("str", iban), obj("str", iban[4:])]
    bics = c04.registry_bics()
    for b in rng.sample(bics, 40 if ctx.quick else 500):
        pop += [obj("BIC", b), obj("BIC", b.lower()), obj("str", b)]
    # the same institution with and without the optional branch part: DIFFERENT strings, different values
    twins = []
    for b in rng.sample(bics, 12 if ctx.quick else 150):
        twins.append((obj("BIC", b[:8]), obj("BIC", b[:8] + "XXX")))
        twins.append((obj("BIC", b[:8]), obj("BIC", b[:8] + "X")))
        twins.append((obj("BIC", b[:8] + "XXX"), obj("str", b[:8])))
    for a, b in twins:
        for kind in ("cmp", "hash", "dict", "sort"):
            ops.append({"op": "values", "kind": kind, "a": a, "b": b})
            ops.append({"op": "values", "kind": kind, "a": b, "b": a})
    pop += [obj("IBAN", ""), obj("BIC", ""), obj("BBAN", "", "DE"), obj("str", ""), obj("IBAN", "x"), obj("BIC", "É")]
    # same compact string, different class or country (what a memo keyed by value would confuse)
    pop += [obj("BBAN", "370400440532013000", "DE"), obj("BBAN", "370400440532013000", "AT"),
            obj("IBAN", "GENODEM1GLS"), obj("BIC", "GENODEM1GLS"), obj("BBAN", "GENODEM1GLS", "GB"),
            obj("BBAN", "", ""), obj("BBAN", "", "XX")]
    for _ in range(6000 if ctx.quick else 120000):
        a, b = dict(rng.choice(pop)), dict(rng.choice(pop))
        if rng.random() < 0.3:
            b = dict(a) if rng.random() < 0.5 else dict(b, text=a["text"])
        for o in (a, b):
            if o["cls"] != "str" and rng.random() < 0.35:
                o["via"] = [rng.choice(COPY_OPS) for _ in range(rng.choice((1, 1, 2)))]
        ops.append({"op": "values", "kind": rng.choice(KINDS), "a": a, "b": b})
    # pickling in its ordinary use: hashed here, unpickled in another interpreter with another hash salt
    objs = [o for o in pop if o["cls"] != "str"]
    for n in range(24 if ctx.quick else 400):
        a, b = dict(rng.choice(objs)), dict(rng.choice(objs))
        if n % 3 == 0:
            a["via"] = [rng.choice(COPY_OPS)]
        ops.append({"op": "values", "kind": "xproc", "a": a, "b": b, "protocol": n % 6, "salt": 1000 + n})
    events = calls.execute(ctx, ops, "c16")
    mism = calls.validate(ctx, "TraceValues", events, {}, "c16", per_shard=6000)
    calls.report(ctx, mism, None, keyfn)
    okn = sum(1 for e in events if e["out"]["k"] == "ok")
    if okn == 0:
        raise MachineryError("vacuous")
    ctx.samples = [{k: (v if k not in ("a", "b") else dict(v, text=text(v["text"]), cc=text(v["cc"])))
                    for k, v in e.items() if k != "i"} for e in (events[0], events[n_model + 1], events[-1])]
    return {"rule": "every model state (object pair x copy operations x observation) replayed on real objects; "
                    "random pairs from a population of valid / unvalidated IBANs, their BBANs, BICs and plain strings "
                    "(spaced and lower-case spellings) with copy / deepcopy / pickle protocols 0-5; distinct = "
                    "distinct (observation, object descriptions)",
            "distinct_nontrivial": len({str((e["kind"], e["a"], e["b"])) for e in events}), "exhaustive": False,
            "extra": {"model_states_replayed": n_model, "observations": len(events), "succeeded": okn}}
