"""MC_Random: the retry machine of random generation on a synthetic layout."""
import tlc
from common import SPEC, MachineryError


def run_model(ctx):
    tries, digits = (3, "{1, 4}") if ctx.quick else (4, "{1, 4, 8}")
    cfg = tlc.write_cfg(ctx.wd / "MC_Random.cfg", [
        ln if not ln.startswith("CONSTANT") else
        (f"CONSTANT MaxTries = {tries}" if "MaxTries" in ln else f"CONSTANT Digits = {digits}")
        for ln in (SPEC / "MC_Random.cfg").read_text().splitlines()])
    res = tlc.run_tlc("MC_Random", cfg, ctx.wd / "meta-rnd", workers="auto", heap="12g", timeout=3000,
                      extra=["-coverage", "1"])
    if res.violated:
        raise MachineryError(f"MC_Random: invariant {res.violated} violated\n" + res.out[-2500:])
    tlc.require_clean(res, "MC_Random")
    for act in ("Draw", "Overlay", "Build"):
        if res.coverage.get(act, (0, 0))[1] == 0:
            raise MachineryError(f"MC_Random: action {act} never taken")
    ctx.add_model(f"MC_Random (retry machine: 16 pinned subsets x 3 registry banks x all draw streams over {digits}, "
                  f"<= {tries} attempts)", res)
