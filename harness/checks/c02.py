"""C02 - IBAN check digits are computed correctly, uniquely and canonically."""
from __future__ import annotations

import random

import calls
import gen
import tlc
from base import Ctx
from common import SPEC, MachineryError, cps, text

CLAUSES = {"accepted-but-invalid", "rejected-but-valid", "wrong-check-digits", "check-digits-out-of-range",
           "compact-differs"}


def model(ctx: Ctx) -> None:
    cfg = ctx.wd / "MC_Mod97.cfg"
    cfg.write_text((SPEC / "MC_Mod97.cfg").read_text())
    res = tlc.run_tlc("MC_Mod97", cfg, ctx.wd / "meta-m97", workers=8, heap="4g", extra=["-coverage", "1"])
    if res.violated:
        raise MachineryError(f"MC_Mod97: invariant {res.violated} violated\n" + res.out[-2000:])
    tlc.require_clean(res, "MC_Mod97")
    if res.distinct != 9700:
        raise MachineryError(f"MC_Mod97: expected the complete 97 x 100 space, got {res.distinct}")
    ctx.add_model("MC_Mod97 (complete: all 97 residues x all 100 check-digit pairs, closed under typing a character)",
                  res)


def bbans_for(row: dict, rng: random.Random, k: int) -> list[str]:
    out = []
    for mode in ("low", "high", "letters", "sparse", "sparse"):
        b = gen.bban_for(row, rng, mode)
        if b and b not in out:
            out.append(b)
    cc = gen.cc_of(row)
    # BBANs whose prescribed digits are the extremes 02, 03, 97, 98
    want = {"02", "03", "97", "98"}
    tries = 0
    while want and tries < 1500:
        tries += 1
        b = gen.bban_for(row, rng)
        d = gen.check_digits(cc, b)
        if d in want:
            want.discard(d)
            out.append(b)
    while len(out) < k:
        out.append(gen.bban_for(row, rng))
    out += [b for b in gen.echo_bbans(row, rng) if b not in out]
    return out + [b for b in gen.word_bbans(row, rng, gen.WORDS[:4]) if b not in out]


def run(ctx: Ctx) -> dict:
    env = ctx.frozen(banks=False)
    if ctx.replay:
        calls.replay(ctx, "TraceCalls", env, CLAUSES)
        return {}
    model(ctx)
    table = ctx.table(env)
    rng = random.Random(ctx.seed + 2)
    k = 3 if ctx.quick else 150
    ops = []
    n_bbans = 0
    for row in table:
        if gen.row_classes(row) is None:
            continue
        cc = gen.cc_of(row)
        for b in bbans_for(row, rng, k):
            n_bbans += 1
            ops.append({"op": "iban.from_bban", "cc": cps(cc), "bban": cps(b), "ai": False, "vb": False})
            for dd in range(100):
                ops.append({"op": "iban.new", "t": cps(f"{cc}{dd:02d}{b}"), "vb": False})
            if n_bbans % 3 == 0:
                # the BBAN / country code as a caller may write them (lower case, grouped), with and without
                # validation of the result: what comes back must still carry the prescribed digits
                for bb, c2 in ((b.lower(), cc), (" ".join(b[i:i + 4] for i in range(0, len(b), 4)), cc), (b, cc.lower()),
                               (b.lower(), cc.lower())):
                    for ai in (False, True):
                        ops.append({"op": "iban.from_bban", "cc": cps(c2), "bban": cps(bb), "ai": ai, "vb": False})
    # the digits of a BBAN are the prescribed ones whatever was computed before - in particular a national
    # check over another country's fields that, joined, read exactly like this BBAN followed by its country
    import c06
    for x, ibx, y, by in c06.joined_collisions(ctx, table, rng, "c02join", limit=6):
        ops.append({"op": "iban.new", "t": cps(ibx), "vb": True})
        ops.append({"op": "iban.from_bban", "cc": cps(y), "bban": cps(by), "ai": False, "vb": False})
        for dd in range(100):
            ops.append({"op": "iban.new", "t": cps(f"{y}{dd:02d}{by}"), "vb": False})
    import fuzz
    ops = fuzz.extend(ctx, ops, "c02", n_seeds=1200, quick=3000, accept=lambda o: o["op"] == "iban.from_bban")
    events = calls.execute(ctx, ops, "c02")
    mism = calls.validate(ctx, "TraceCalls", events, env, "c02", per_shard=25000)
    calls.report(ctx, mism, CLAUSES)
    # cross-check of the quantifier "exactly one of the 100": per (cc, bban) count accepted
    per = {}
    for e in events:
        if e["op"] == "iban.new":
            t = text(e["t"])
            key = (t[:2], t[4:])
            per[key] = per.get(key, 0) + (1 if e["out"]["k"] == "ok" else 0)
    wrong = {k_: v for k_, v in per.items() if v != 1}
    if wrong and not ctx.violations:
        raise MachineryError(f"accepted count != 1 for {list(wrong.items())[:3]} although TLC reported no mismatch")
    built = sum(1 for e in events if e["op"] == "iban.from_bban" and e["out"]["k"] == "ok")
    extremes = sum(1 for e in events if e["op"] == "iban.from_bban" and e["out"]["k"] == "ok"
                   and text(e["out"]["val"])[2:4] in ("02", "03", "97", "98"))
    calls.three_samples(ctx, events)
    ctx.assumptions.append("structure-conforming BBANs are drawn class-wise; conformance itself is decided by the spec")
    return {"rule": "all countries x k structure-conforming BBANs (all-low, all-high, letters, extremes 02/03/97/98, "
                    "random) x from_bban + all 100 check-digit pairs; distinct = distinct (country, BBAN, dd)",
            "distinct_nontrivial": len({tuple(e.get("t", e.get("bban"))) for e in events}),
            "exhaustive": False,
            "extra": {"bbans": n_bbans, "built_by_from_bban": built, "with_extreme_digits": extremes,
                      "pairs_with_exactly_one_accepted": len(per) - len(wrong)}}
