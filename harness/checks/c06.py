"""C06 - national check digits are judged by the country's published algorithm."""
from __future__ import annotations

import json
import random

import calls
import gen
import tlaparse
import tlc
from base import Ctx
from common import SPEC, MachineryError, cps, text

NAT = "BA BE ES FR MC IT SM FI NO PL EE PT RS ME MK SI TL MR TN CZ SK IS".split()


def keyfn(e, clause):
    t = text(e.get("t", []))
    return {"clause": clause, "op": e.get("op"), "country": t[:2].upper()}


def model(ctx: Ctx, digits: str) -> list[dict]:
    cfg = tlc.write_cfg(ctx.wd / "MC_National.cfg",
                        [ln if not ln.startswith("CONSTANT") else
                         (f"CONSTANT DigitVals = {digits}" if "DigitVals" in ln else
                          f"CONSTANT FullAlphabet = {'FALSE' if ctx.quick else 'TRUE'}")
                         for ln in (SPEC / "MC_National.cfg").read_text().splitlines()])
    dump = ctx.wd / "nat.dump"
    res = tlc.run_tlc("MC_National", cfg, ctx.wd / "meta-nat", workers="auto", heap="12g", timeout=3000,
                      extra=["-dump", str(dump), "-coverage", "1"])
    if res.violated:
        raise MachineryError(f"MC_National: invariant {res.violated} violated\n" + res.out[-2500:])
    tlc.require_clean(res, "MC_National")
    ctx.add_model(f"MC_National (22 countries, six spread positions over {digits} (+letters), as is / repaired / every "
                  "single corruption)", res)
    return list(tlaparse.parse_dump(str(dump)))


def nat_gen(ctx: Ctx, bodies: list[dict], tag: str) -> list[dict]:
    """Let TLC write the prescribed national check digits into the bodies."""
    inp = ctx.wd / f"bodies-{tag}.json"
    outp = ctx.wd / f"bodies-{tag}-out.json"
    inp.write_text(json.dumps(bodies))
    cfg = tlc.write_cfg(ctx.wd / f"natgen-{tag}.cfg", ["SPECIFICATION Spec", "CHECK_DEADLOCK FALSE"])
    res = tlc.run_tlc("NatGen", cfg, ctx.wd / f"meta-natgen-{tag}", workers=1, heap="4g",
                      env={"VERIF_BODIES": str(inp), "VERIF_OUT_BODIES": str(outp)})
    tlc.require_clean(res, "NatGen")
    ctx.add_model("NatGen (specification computes national check digits for the drivers' bodies)", res)
    return json.loads(outp.read_text())


def joined_collisions(ctx: Ctx, rows: list, rng: random.Random, tag: str, limit: int = 4) -> list[tuple]:
    """JOINED-TEXT collisions: a national algorithm is fed the concatenated fields of country X, the IBAN
    checksum the concatenation "BBAN of country Y" + "Y". Where X's fields may end in two letters the two
    concatenations can be the very same text (FR ...AE vs AE): returns [(x, nationally valid IBAN of x
    whose fields end in y, y, BBAN of y)] - a memo keyed by the joined text would confuse the two."""
    names8 = ["account_id", "account_type", "account_code", "account_holder_id", "currency_code",
              "bank_code", "branch_code", "national_checksum_digits"]
    allrows = {gen.cc_of(r): r for r in rows if gen.row_classes(r) is not None}
    cand = []
    for x, rx in sorted(allrows.items()):
        if x not in NAT or not rx["haspos"]:
            continue
        a, z = rx["pos"][names8.index("national_checksum_digits")]
        cx = rx["cls"]
        if z != len(cx) or z - a != 2 or a < 4 or not all(k in (97, 99) for k in cx[a - 2:a]):
            continue
        for y, ry in sorted(allrows.items()):
            cy = ry["cls"]
            if len(cy) == a - 2 and all(k == 110 for k in cy) and all(k in (110, 99) for k in cx[:a - 2]):
                cand.append((x, y, a))
    bodies, meta = [], []
    for x, y, a in cand[:: max(1, len(cand) // limit)][:limit]:
        by = "".join(rng.choice("0123456789") for _ in range(a - 2))
        bodies.append({"cc": cps(x), "b": cps(by + y + "00")})
        meta.append((x, y, by))
    out = []
    for (x, y, by), fx in zip(meta, nat_gen(ctx, bodies, tag) if bodies else []):
        if fx["ok"]:
            out.append((x, iban_of(x, text(fx["b"])), y, by))
    return out


def algos_env(ctx: Ctx, env: dict) -> dict:
    """env + VERIF_ALGOS: the algorithm keys the code under test registers (data, read off the
    live dictionary by the probe)."""
    if "VERIF_ALGOS" in env:
        return env
    out = calls.execute(ctx, [{"op": "algo.list"}], "algolist")[0]["out"]
    if out["k"] != "ok":
        raise MachineryError(f"cannot list algorithms: {out}")
    p = ctx.wd / "algos.json"
    p.write_text(json.dumps({"de": out["de"], "nat": out["nat"]}))
    env = dict(env)
    env["VERIF_ALGOS"] = str(p)
    return env


def national_valid_ibans(ctx: Ctx, table: dict, rng: random.Random, per: int, tag: str) -> list[str]:
    """IBANs of the 22 countries whose national check digits are right (reference digits from the
    specification): the population real-world IBANs come from."""
    bodies = []
    for cc in NAT:
        row = table.get(cc)
        if row is None or gen.row_classes(row) is None:
            continue
        for i in range(per):
            bodies.append({"cc": cps(cc), "b": cps(gen.bban_for(row, rng, "letters" if i % 2 else "random"))})
    out = []
    for bd, fx in zip(bodies, nat_gen(ctx, bodies, tag)):
        if fx["ok"]:
            out.append(iban_of(text(bd["cc"]), text(fx["b"])))
    return out


def iban_of(cc: str, bban: str) -> str:
    return cc + gen.check_digits(cc, bban) + bban


def events_for(bban_cp: list[int], cc: str, rng: random.Random, ops: list, full: bool) -> None:
    b = text(bban_cp)
    iban = cps(iban_of(cc, b))
    ops.append({"op": "iban.new", "t": iban, "vb": True})
    if full:
        ops.append({"op": "iban.validate", "t": iban, "vb": True})
        ops.append({"op": "bban.nat", "t": iban})
        ops.append({"op": "iban.new", "t": iban, "vb": False, "plain": True})


def run(ctx: Ctx) -> dict:
    env = algos_env(ctx, ctx.frozen(banks=True))
    if ctx.replay:
        calls.replay(ctx, "TraceNational", env, None, keyfn)
        return {}
    rng = random.Random(ctx.seed + 6)
    table = {gen.cc_of(r): r for r in ctx.table(env)}
    ops = []
    # (B) model states
    states = model(ctx, "{48, 57}")
    bodies = [{"cc": st["cc"], "b": st["body"]} for st in states if st["k"] == 7 and st["variant"][0] == "asis"]
    fixed = nat_gen(ctx, bodies, "model")
    n_model = 0
    for bd, fx in zip(bodies, fixed):
        cc = text(bd["cc"])
        events_for(bd["b"], cc, rng, ops, False)
        events_for(fx["b"], cc, rng, ops, True)
        n_model += 2
    # (C) random structure-conforming BBANs of the 22 countries
    per = 80 if ctx.quick else 6000
    rb = []
    for cc in NAT:
        row = table.get(cc)
        if row is None or gen.row_classes(row) is None:
            continue
        for i in range(per):
            b = gen.bban_for(row, rng, ("random", "letters", "low", "high")[i % 4] if i % 7 else "random")
            rb.append({"cc": cps(cc), "b": cps(b)})
    rfixed = nat_gen(ctx, rb, "random")
    accept_side = 0
    for bd, fx in zip(rb, rfixed):
        cc = text(bd["cc"])
        events_for(bd["b"], cc, rng, ops, False)                 # random digits: mostly the reject side
        if fx["ok"] and fx["settled"]:
            accept_side += 1
            events_for(fx["b"], cc, rng, ops, True)              # reference-computed digits: accept side
            f = list(fx["b"])
            row = table[cc]
            names = ["account_id", "account_type", "account_code", "account_holder_id", "currency_code",
                     "bank_code", "branch_code", "national_checksum_digits"]
            # every single-character corruption inside the published check digit slot
            p = rng.randrange(len(f))
            alt = [c for c in (cps("0123456789") if 48 <= f[p] <= 57 else cps("ABCDEFGHIJKLMNOPQRSTUVWXYZ"))
                   if c != f[p]]
            g = list(f)
            g[p] = rng.choice(alt)
            events_for(g, cc, rng, ops, False)
    # every value of the national check digit field (10 or 100 values) for a few bodies per country,
    # among them bodies whose published digits are the extremes 02, 97, 98 or 0/1/9 - where a test by
    # congruence instead of by comparison has a second solution (00, 01, 99)
    names8 = ["account_id", "account_type", "account_code", "account_holder_id", "currency_code",
              "bank_code", "branch_code", "national_checksum_digits"]
    by_cc = {}
    for bd, fx in zip(rb, rfixed):
        if fx["ok"] and fx["settled"]:
            by_cc.setdefault(text(bd["cc"]), []).append(text(fx["b"]))
    for cc, good in sorted(by_cc.items()):
        a, z = table[cc]["pos"][names8.index("national_checksum_digits")]
        if z - a not in (1, 2) or not all(c.isdigit() for c in good[0][a:z]):
            continue
        extreme = [b for b in good if b[a:z] in ("02", "97", "98", "00", "01", "99", "0", "1", "9")]
        for b in extreme[:3 if ctx.quick else 40] + good[:1 if ctx.quick else 20]:
            for v in range(10 ** (z - a)):
                g = b[:a] + str(v).zfill(z - a) + b[z:]
                ops.append({"op": "iban.new", "t": cps(iban_of(cc, g)), "vb": True})
    # the same characters under ANOTHER country of equal BBAN length directly afterwards: each country's
    # algorithm must be handed that country's fields (not what was cut from the same text a moment ago)
    by_len = {}
    for cc in sorted(by_cc):
        by_len.setdefault(len(by_cc[cc][0]), []).append(cc)
    for ln, ccs in sorted(by_len.items()):
        others = [c for c, r in sorted(table.items()) if gen.row_classes(r) and len(r["cls"]) == ln]
        for x in ccs:
            for y in others:
                if y == x:
                    continue
                for b in by_cc[x][:2 if ctx.quick else 10]:
                    if gen.row_classes(table[y]) and all(c.isdigit() for c in b) and all(k in (110, 99) for k in table[y]["cls"]):
                        ops.append({"op": "iban.new", "t": cps(iban_of(x, b)), "vb": True})
                        ops.append({"op": "iban.new", "t": cps(iban_of(y, b)), "vb": True})
    # all other countries are unaffected by the flag
    others = [r for cc, r in sorted(table.items()) if cc not in NAT and cc != "DE" and gen.row_classes(r)]
    for row in others:
        for _ in range(6 if ctx.quick else 200):
            iban = gen.valid_iban(row, rng)
            ops.append({"op": "iban.new", "t": cps(iban), "vb": True})
            ops.append({"op": "bban.nat", "t": cps(iban)})
    import fuzz
    ops = fuzz.extend(ctx, ops, "c06", accept=lambda o: not o.get("plain"))
    events = calls.execute(ctx, ops, "c06")
    mism = calls.validate(ctx, "TraceNational", events, env, "c06", per_shard=8000)
    calls.report(ctx, mism, None, keyfn)
    # "whatever national validation accepts is also accepted without it" (plain events) is judged by TraceCalls
    plain = [e for e in events if e.get("plain")]
    calls.report(ctx, calls.validate(ctx, "TraceCalls", plain, env, "c06plain", per_shard=20000),
                 {"accepted-but-invalid", "rejected-but-valid", "non-library-exception"}, keyfn)
    by_cc = {}
    for e in events:
        if e["op"] == "iban.new" and e.get("vb"):
            cc = text(e["t"])[:2]
            d = by_cc.setdefault(cc, [0, 0])
            d[0 if e["out"]["k"] == "ok" else 1] += 1
    for cc in NAT:
        if cc in table and (by_cc.get(cc, [0, 0])[0] == 0 or by_cc.get(cc, [0, 0])[1] == 0) and not ctx.violations:
            raise MachineryError(f"vacuous for {cc}: accepted/rejected = {by_cc.get(cc)}")
    calls.three_samples(ctx, events)
    ctx.assumptions += ["the 22 algorithms are transcribed from the published national descriptions (DESIGN Appendix "
                        "B) on the offsets of the published account formats, not of the bundled table",
                        "Norwegian accounts whose 5th-6th digits are 00 are not judged"]
    return {"rule": "model bodies (as is / with reference-computed digits), random conforming BBANs per country with "
                    "random digits, reference-computed digits and single corruptions; all other countries with the "
                    "flag on; distinct = distinct (IBAN, entry point)",
            "distinct_nontrivial": len({(tuple(e["t"]), e["op"], e.get("vb")) for e in events}),
            "exhaustive": False,
            "extra": {"model_bodies": len(bodies), "random_bodies": len(rb), "accept_side_bodies": accept_side,
                      "accepted_rejected_by_country": by_cc}}
