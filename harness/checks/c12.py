"""C12 - bank-code <-> BIC lookups agree with the bundled registry and with each other."""
from __future__ import annotations

import itertools
import json
import random
import string

import calls
import gen
import tlc
from base import Ctx
from common import SPEC, MachineryError, cps, package_dir, text


def keyfn(e, clause):
    return {"op": e.get("op"), "clause": clause}


def raw_entries() -> list[dict]:
    """(country, code, bic) triples of the raw bank files - used as INPUTS only."""
    out = []
    for f in sorted((package_dir() / "bank_registry").glob("*.json")):
        doc = json.loads(f.read_text(encoding="utf-8"))
        if isinstance(doc, dict):
            for e in doc.get("entries", []):
                for c in e.get(doc.get("expand_from", "bank_codes"), []):
                    out.append({"cc": e.get("country_code", ""), "code": c, "bic": e.get("bic") or ""})
        else:
            for e in doc:
                out.append({"cc": e.get("country_code", ""), "code": e.get("bank_code", ""), "bic": e.get("bic") or ""})
    return out


def raw_entries_full() -> list[dict]:
    out = []
    for f in sorted((package_dir() / "bank_registry").glob("*.json")):
        doc = json.loads(f.read_text(encoding="utf-8"))
        if isinstance(doc, list):
            for e in doc:
                out.append({"cc": e.get("country_code", ""), "code": e.get("bank_code", ""),
                            "primary": bool(e.get("primary")), "bic": e.get("bic") or ""})
    return out


def model(ctx: Ctx) -> None:
    n = 3
    cfg = tlc.write_cfg(ctx.wd / "MC_Lookup.cfg", (SPEC / "MC_Lookup.cfg").read_text().splitlines())
    res = tlc.run_tlc("MC_Lookup", cfg, ctx.wd / "meta-lk", workers="auto", heap="8g", extra=["-coverage", "1"])
    if res.violated:
        raise MachineryError(f"MC_Lookup: invariant {res.violated} violated\n" + res.out[-2500:])
    tlc.require_clean(res, "MC_Lookup")
    ctx.add_model(f"MC_Lookup (every bank list of <= {n} entries over 60 entry values; all keys queried in every "
                  "state)", res)


X, Y = cps("DE"), cps("SI")
CODES = [[], cps("1"), cps("22")]
BICS = [[], cps("AAAADEAA"), cps("AAAADEAAXXX"), cps("AAAADEAAAAB"), cps("BBBBDEBB123")]


def model_registries(rng: random.Random, quick: bool) -> list[list[dict]]:
    ents = [{"cc": cc, "code": code, "bic": bic, "primary": p, "name": "n", "short": "s", "algo": [],
             "hasalgo": False, "wellformed": True}
            for cc in (X, Y) for code in CODES for bic in BICS for p in (False, True)]
    regs = [[]] + [[e] for e in ents] + [[a, b] for a in ents for b in ents]
    triples = 2500 if quick else 12000
    for _ in range(triples):
        regs.append([rng.choice(ents) for _ in range(3)])
    for _ in range(300 if quick else 1500):
        regs.append([rng.choice(ents) for _ in range(rng.choice((4, 5, 6)))])
    return regs


def place_key(row: dict, bban: str, key: str) -> str | None:
    """Overlay the bank-identifying key on the concatenated lookup components."""
    names = ["account_id", "account_type", "account_code", "account_holder_id", "currency_code", "bank_code",
             "branch_code", "national_checksum_digits"]
    pos = 0
    b = list(bban)
    for comp in row["lookup"]:
        a, z = row["pos"][names.index(comp)]
        w = z - a
        part = key[pos:pos + w]
        if len(part) != w:
            return None
        b[a:z] = list(part)
        pos += w
    return "".join(b) if pos == len(key) else None


def run(ctx: Ctx) -> dict:
    env = ctx.frozen(banks=True)
    if ctx.replay:
        calls.replay(ctx, "TraceLookup", env, None, keyfn)
        return {}
    model(ctx)
    rng = random.Random(ctx.seed + 12)
    # (B) model registries through the library's own index builders and lookups
    queries = [(cc, code) for cc in (X, Y, []) for code in (CODES + [cps("9")])]
    regs = model_registries(rng, ctx.quick)
    ops = [{"op": "lookup.model", "banks": r, "queries": queries} for r in regs]
    events = calls.execute(ctx, ops, "lkmodel")
    mism = calls.validate(ctx, "TraceLookup", events, env, "lkmodel", per_shard=700, heap="6g")
    calls.report(ctx, mism, None, keyfn)
    # (C) the real registry
    table = {gen.cc_of(r): r for r in ctx.table(env)}
    raw = raw_entries()
    keys = sorted({(e["cc"], e["code"]) for e in raw})
    bics = sorted({e["bic"] for e in raw if e["bic"]})
    ops = []
    for cc, code in (keys if not ctx.quick else rng.sample(keys, 2500)):
        ops.append({"op": "bic.lookup", "cc": cps(cc), "code": cps(code)})
    ccs = sorted({k[0] for k in keys})
    for _ in range(500 if ctx.quick else 5000):          # unlisted / malformed pairs
        cc, code = rng.choice(keys)
        r = rng.random()
        if r < 0.3:
            code = "".join(rng.choice(string.digits) for _ in range(len(code) or 4))
        elif r < 0.5:
            cc = rng.choice(ccs + ["XX", "", "de"])
        elif r < 0.6:
            code = code + " "
        elif r < 0.7:
            code = code.lower() if code.lower() != code else code[:-1]
        elif r < 0.8:
            code = ""
        else:
            code = code[1:] + code[:1]
        ops.append({"op": "bic.lookup", "cc": cps(cc), "code": cps(code)})
    for b in (bics if not ctx.quick else rng.sample(bics, 1200)):
        ops.append({"op": "bic.reverse", "bic": cps(b)})
    for b in ("AAAADEAA", "GENODEM1GL", "", "genodem1gls", "DEUTDEFFXXX", "DEUTDEFF"):
        ops.append({"op": "bic.reverse", "bic": cps(b)})
    by_cc = {}
    for cc, code in keys:
        by_cc.setdefault(cc, []).append(code)
    per = 12 if ctx.quick else 120
    for cc, codes in sorted(by_cc.items()):
        row = table.get(cc)
        if row is None or not row["haspos"] or gen.row_classes(row) is None:
            continue
        for k in range(per):
            bban = gen.bban_for(row, rng)
            code = rng.choice(codes)
            if k % 4 == 3:      # an unlisted bank: random key
                placed = bban
            else:
                placed = place_key(row, bban, code)
                if placed is None:
                    continue
            iban = cc + gen.check_digits(cc, placed) + placed
            ops.append({"op": "iban.bank", "t": cps(iban)})
    # keys with several entries of mixed primary flags whose first listed entry is not primary
    seen = {}
    for e in raw_entries_full():
        seen.setdefault((e["cc"], e["code"]), []).append(e)
    mixed = [k for k, es in seen.items() if len(es) > 1 and len({x["primary"] for x in es}) > 1]
    for cc, code in sorted(mixed)[:: max(1, len(mixed) // (40 if ctx.quick else 400))]:
        row = table.get(cc)
        if row is None or gen.row_classes(row) is None:
            continue
        placed = place_key(row, gen.bban_for(row, rng), code)
        if placed:
            ops.append({"op": "iban.bank", "t": cps(cc + gen.check_digits(cc, placed) + placed)})
            ops.append({"op": "bic.lookup", "cc": cps(cc), "code": cps(code)})
    for cc in ("AO", "NL", "XX"):   # countries without banks / unknown
        row = table.get(cc)
        if row:
            ops.append({"op": "iban.bank", "t": cps(gen.valid_iban(row, rng))})
    import fuzz
    ops = fuzz.extend(ctx, ops, "c12", n_seeds=600, quick=1500, thorough=20000)
    events = calls.execute(ctx, ops, "lk")
    mism = calls.validate(ctx, "TraceLookup", events, env, "lk", per_shard=500 if ctx.quick else 2500)
    calls.report(ctx, mism, None, keyfn)
    listed = sum(1 for e in events if e["op"] == "bic.lookup" and e["out"].get("cands", {}).get("k") == "ok")
    unlisted = sum(1 for e in events if e["op"] == "bic.lookup" and e["out"].get("cands", {}).get("k") == "exc")
    withbank = sum(1 for e in events if e["op"] == "iban.bank" and e["out"]["k"] == "ok" and not e["out"]["bankz"])
    nobank = sum(1 for e in events if e["op"] == "iban.bank" and e["out"]["k"] == "ok" and e["out"]["bankz"])
    if min(listed, unlisted, withbank, nobank) == 0 and not ctx.violations:
        raise MachineryError(f"vacuous: listed={listed} unlisted={unlisted} withbank={withbank} nobank={nobank}")
    calls.three_samples(ctx, events)
    ctx.assumptions += ["order inside the primary / non-primary groups and which of several 8-character (or XXX) "
                        "candidates is chosen are not demanded",
                        "keys whose registry BIC is not a valid BIC are not judged (C17 reports the data)"]
    return {"rule": "model registries (all of length <= 2, sampled longer ones) x 16 queries through the library's "
                    "index builders; real registry: (country, bank code) keys, unlisted / malformed pairs, BICs "
                    "reversed, IBANs around listed and unlisted banks; distinct = distinct (op, arguments)",
            "distinct_nontrivial": len(regs) + len({json.dumps(e.get("t") or [e.get("cc"), e.get("code"), e.get("bic")])
                                                    for e in events}),
            "exhaustive": not ctx.quick,
            "extra": {"model_registries_replayed": len(regs), "registry_keys": len(keys), "registry_bics": len(bics),
                      "lookups_listed": listed, "lookups_unlisted": unlisted, "ibans_with_bank": withbank,
                      "ibans_without_bank": nobank}}
