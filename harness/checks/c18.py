"""C18 - registry files compose in name order: deep later-wins merge, list concatenation."""
from __future__ import annotations

import itertools
import json
import random

import calls
import gen
import synth
import tlc
from base import Ctx
from common import SPEC, MachineryError, cps, text
from export import tag

OWN = {"merge-raised", "merge-result-differs", "merge-changed-its-arguments", "load-raised",
       "loaded-registry-differs", "dump-raised", "country-table-differs", "bank-list-length-differs",
       "bank-list-differs"}
FOLLOW = {"accepted-but-invalid", "rejected-but-valid", "class-not-a-present-defect", "non-library-exception"}
ABSENT = object()


def keyfn(e, clause):
    return {"op": e.get("op"), "clause": clause.split(":")[0]}


def run_model(ctx: Ctx, name: str, cfg_lines: list[str], note: str, env=None) -> tlc.TlcResult:
    cfg = tlc.write_cfg(ctx.wd / f"{name}-{len(ctx.models)}.cfg", cfg_lines)
    res = tlc.run_tlc(name, cfg, ctx.wd / f"meta-{name}-{len(ctx.models)}", env=env, workers="auto", heap="8g",
                      extra=["-coverage", "1"])
    if res.violated:
        raise MachineryError(f"{name}: specification-level invariant {res.violated} violated\n" + res.out[-3000:])
    tlc.require_clean(res, name)
    ctx.add_model(note, res)
    return res


def small_dicts():
    """The 144 dictionaries of MC_Merge (depth <= 2 over keys a, b; scalars 1, 2)."""
    scal = [1, 2]
    d1 = []
    for a in scal + [ABSENT]:
        for b in scal + [ABSENT]:
            d1.append({k: v for k, v in (("a", a), ("b", b)) if v is not ABSENT})
    vals2 = scal + d1 + [ABSENT]
    out = []
    for a in vals2:
        for b in vals2:
            out.append({k: v for k, v in (("a", a), ("b", b)) if v is not ABSENT})
    return out


def load_configs(rng: random.Random, quick: bool) -> list[dict]:
    names = ["a.json", "B.json", "a10.json", "a2.json", "a-b.json"]
    ddocs = [{"a": 1}, {"a": 2}, {"b": 1}, {"a": {"x": 1}}, {"a": {"x": 2}}, {"a": {"y": 1}}, {}]
    ldocs = [[], [1], [2, 1]]
    cfgs = []
    for kind, docs in (("dict", ddocs), ("list", ldocs)):
        for n in (1, 2, 3):
            for ns in itertools.permutations(names, n):
                for ds in itertools.product(docs, repeat=n):
                    cfgs.append({"kind": kind, "files": [(a, b) for a, b in zip(ns, ds)]})
    if quick:
        cfgs = rng.sample(cfgs, 2500)
    # v2 documents mixed with plain lists; names that do / do not count as v2
    v2docs = []
    for ents in ([], [("X", ["1"])], [("X", ["1", "2"]), ("Y", [])], [("X", ["7"]), ("Y", ["8", "9"])]):
        for prim in (None, True, False):
            doc = {"expand_from": "bank_codes", "expand_into": "bank_code", "entries": []}
            for nm, codes in ents:
                ent = {"country_code": "DK", "name": nm, "bank_codes": codes}
                if nm == "Y":
                    ent["bank_code"] = ""          # a stale value of the key the entry is expanded into
                if prim is not None:
                    ent["primary"] = prim
                doc["entries"].append(ent)
            v2docs.append(doc)
    plain = [[], [{"country_code": "DE", "bank_code": "5", "name": "P", "primary": True}]]
    for doc in v2docs:
        for vname in ("x.v2.json", "v2.json", "manual_dk.v2.json", "A.v2.json", "zv2.json"):
            for pl in plain:
                for pname in ("a.json", "y.json"):
                    cfgs.append({"kind": "list", "files": [(vname, doc), (pname, pl)]})
                    cfgs.append({"kind": "list", "files": [(pname, pl), (vname, doc)]})
    # deeper / wider dictionaries, unicode keys, dict-vs-list, null values
    deep = [{"DE": {"positions": {"bank_code": [0, 8]}, "bban_length": 18}},
            {"DE": {"positions": {"bank_code": [0, 4], "branch_code": [4, 8]}}},
            {"DE": {"positions": 5}}, {"DE": None, "É": {"k": [1, {"z": None}]}}, {"DE": {"positions": {}}},
            {"FR": {"a": {"b": {"c": {"d": 1}}}}}, {"FR": {"a": {"b": {"c": {"e": 2}, "f": True}}}}]
    # names whose order differs between "by name" and "by stem" / natural / case-folded orders
    tricky = ["overwrite.json", "overwrite-local.json", "overwrite local.json", "overwrite+x.json", "Overwrite.json",
              "overwrite.v2.json", "overwrite_2.json", "overwrite10.json", "overwrite2.json", "ÿ.json"]
    v2doc = {"expand_from": "bank_codes", "expand_into": "bank_code",
             "entries": [{"country_code": "DK", "name": "V", "bank_codes": ["1", "2"]}]}
    for a, b in itertools.permutations(tricky, 2):
        if not a.endswith("v2.json") and not b.endswith("v2.json"):
            cfgs.append({"kind": "dict", "files": [(a, {"k": {"v": 1, "a": a}}), (b, {"k": {"v": 2, "b": b}})]})
        cfgs.append({"kind": "list", "files": [(a, v2doc if a.endswith("v2.json") else [a]),
                                               (b, v2doc if b.endswith("v2.json") else [b])]})
    for n in (2, 3):
        for ds in itertools.permutations(deep, n):
            cfgs.append({"kind": "dict", "files": list(zip(["generated.json", "overwrite.json", "zz.json"][:n], ds))})
            cfgs.append({"kind": "dict", "files": list(zip(["zz.json", "Overwrite.json", "generated.json"][:n], ds))})
    return cfgs


def overlay_follow_through(ctx: Ctx) -> dict:
    """An overlay file changes exactly what it names: validation follows the effective data."""
    overlay = {"DE": {"bban_spec": "8!n11!n", "iban_spec": "DE2!n8!n11!n", "bban_length": 19, "iban_length": 23,
                      "positions": {"account_code": [8, 19]}},
               "QQ": synth.country("3!a5!n", 8, {"bank_code": [0, 3], "account_code": [3, 8]}, "QQ")}
    from common import package_dir
    files = {}
    for f in sorted((package_dir() / "iban_registry").glob("*.json")):
        files[f.name] = json.loads(f.read_text(encoding="utf-8"))
    files["zz_user_overlay.json"] = overlay
    rng = random.Random(ctx.seed + 18)
    # a user bank file: a second entry for an existing German key, a bank of the new country QQ, and a
    # compact v2 document - lookups must follow the effective (concatenated, expanded) list
    bfiles = {}
    for f in sorted((package_dir() / "bank_registry").glob("*.json")):
        bfiles[f.name] = json.loads(f.read_text(encoding="utf-8"))
    bfiles["zz_user_banks.json"] = [
        {"country_code": "DE", "bank_code": "43060967", "bic": "ZZZZDEZZ", "name": "User Bank", "short_name": "UB",
         "primary": True},
        {"country_code": "QQ", "bank_code": "ABC", "bic": "QQQQDEQQXXX", "name": "Q Bank", "short_name": "Q",
         "primary": False}]
    bfiles["zz_user.v2.json"] = {"expand_from": "bank_codes", "expand_into": "bank_code", "entries": [
        {"country_code": "QQ", "bic": "QQQQDEQQ", "name": "Q2", "short_name": "Q2", "bank_codes": ["ABD", "ABE"],
         "primary": True}]}
    with synth.scratch_package(files, bfiles, "c18ovl") as (root, pkg):
        benv = ctx.frozen(banks=True, pkg=pkg, tag="overlayb")
        lops = [{"op": "bic.lookup", "cc": cps(c), "code": cps(k)} for c, k in
                (("DE", "43060967"), ("QQ", "ABC"), ("QQ", "ABD"), ("QQ", "ABE"), ("QQ", "ABF"), ("DE", "37040044"))]
        lops += [{"op": "bic.reverse", "bic": cps(b)} for b in ("ZZZZDEZZ", "QQQQDEQQ", "GENODEM1GLS")]
        lops += [{"op": "iban.bank", "t": cps("QQ" + gen.check_digits("QQ", k + "12345") + k + "12345")}
                 for k in ("ABC", "ABD", "ABZ")]
        lev = calls.execute(ctx, lops, "ovlb", extra_path=root)
        calls.report(ctx, calls.validate(ctx, "TraceLookup", lev, benv, "ovlb"), None, keyfn)
        if not any(e["op"] == "bic.lookup" and e["out"].get("cands", {}).get("k") == "ok"
                   and len(e["out"]["cands"]["v"]) >= 2 for e in lev) and not ctx.violations:
            raise MachineryError("bank overlay follow-through vacuous")
        env = ctx.frozen(banks=False, pkg=pkg, tag="overlay")
        table = {gen.cc_of(r): r for r in ctx.table(env)}
        base = {gen.cc_of(r): r for r in ctx.table(ctx.frozen(banks=False))}
        ops = []
        for cc in ("DE", "QQ", "GB", "FR", "NO", "BR"):
            for tbl in (table, base):
                if cc not in tbl:
                    continue
                for _ in range(20):
                    iban = gen.valid_iban(tbl[cc], rng)
                    ops.append({"op": "iban.new", "t": cps(iban), "vb": False})
                    ops.append({"op": "iban.is_valid", "t": cps(iban)})
                    ops.append({"op": "iban.parts", "t": cps(iban), "ai": True})
        events = calls.execute(ctx, ops, "ovl", extra_path=root)
        mism = calls.validate(ctx, "TraceCalls", events, env, "ovl")
        calls.report(ctx, mism, None, keyfn)
        acc = {}
        for e in events:
            if e["op"] == "iban.new":
                k = (text(e["t"])[:2], len(e["t"]), e["out"]["k"])
                acc[k] = acc.get(k, 0) + 1
        if not ctx.violations:
            if acc.get(("DE", 23, "ok"), 0) == 0 or acc.get(("DE", 22, "exc"), 0) == 0 or \
                    acc.get(("QQ", 12, "ok"), 0) == 0 or acc.get(("GB", 22, "ok"), 0) == 0:
                raise MachineryError(f"overlay follow-through vacuous: {acc}")
        return {"overlay_events": len(events), "overlay_outcomes": {str(k): v for k, v in acc.items()}}


def run(ctx: Ctx) -> dict:
    if ctx.replay:
        raise MachineryError("replay for C18: re-run ./check C18 quick (configurations are regenerated from the seed)")
    extra = {}
    base_cfg = (SPEC / "MC_Merge.cfg").read_text().splitlines()
    run_model(ctx, "MC_Merge", base_cfg, "MC_Merge (all 144 x 144 pairs of dictionaries of depth <= 2 over keys a,b)")
    run_model(ctx, "MC_Merge", [ln.replace("N = 2", "N = 3").replace("Reduced = FALSE", "Reduced = TRUE")
                                for ln in base_cfg], "MC_Merge (all triples of the 36 reduced dictionaries)")
    run_model(ctx, "MC_Load", (SPEC / "MC_Load.cfg").read_text().splitlines(),
              "MC_Load (every directory of <= 3 files over 4 names x small documents, every listing order)")
    rng = random.Random(ctx.seed + 180)
    # (B) every pair of the model through the library's merge_dicts
    dicts = small_dicts()
    pairs = [(l, r) for l in dicts for r in dicts]
    if ctx.quick:
        pairs = rng.sample(pairs, 6000)
    ops = [{"op": "merge", "l": tag(l), "r": tag(r)} for l, r in pairs]
    # (B) directories through the library's loader (in a scratch copy of the package)
    cfgs = load_configs(rng, ctx.quick)
    for c in cfgs:
        ops.append({"op": "load", "kind": c["kind"],
                    "files": [{"name": n, "nc": cps(n), "tree": tag(d)} for n, d in c["files"]]})
    with synth.scratch_package(None, None, "c18load") as (root, pkg):
        events = calls.execute(ctx, ops, "c18", extra_path=root)
    mism = calls.validate(ctx, "TraceRegistry", events, {}, "c18", per_shard=1500)
    calls.report(ctx, mism, None, keyfn)
    bad = [e for e in events if e["out"]["k"] == "exc"]
    if bad and not ctx.violations:
        raise MachineryError(f"{len(bad)} loader calls raised: {bad[0]['out']}")
    # (C) the real tree: the library's registries equal what the Load machine published
    env = ctx.frozen(banks=True)
    ev = calls.execute(ctx, [{"op": "registry.dump"}], "dump")
    mism = calls.validate(ctx, "TraceRegistry", ev, env, "dump")
    calls.report(ctx, mism, None, keyfn)
    extra["real_tree"] = {"countries": len(ev[0]["out"].get("iban", {}).get("k", [])),
                          "bank_entries": len(ev[0]["out"].get("bank", {}).get("v", []))}
    extra.update(overlay_follow_through(ctx))
    # the load phase as it really happens at import: each registry file must be read in file-name
    # order (spec/Schwifty.tla, phase "loading"), observed in fresh interpreters
    import session
    senv = ctx.frozen(banks=True)
    rng2 = random.Random(ctx.seed + 1800)
    sessions = session.run_sessions(ctx, senv, [session.mixed_ops(ctx, senv, rng2, 40 if ctx.quick else 400)
                                                for _ in range(2 if ctx.quick else 8)], "c18")
    loads = sum(1 for e in sessions[0] if e["op"] == "load.file")
    # Only the ORDER of the observed reads is judged here (a read out of name order composes the files
    # in another order than the property prescribes). The other clauses of the load phase describe how
    # the present implementation loads (everything, once, at import); a tree that loads lazily or through
    # an interface the recorder does not see still satisfies C18 if (B) and (C) above hold, so they are
    # recorded as notes, never raised.
    notes = {}
    for n, e, clause in session.validate_sessions(ctx, senv, sessions, "c18sess"):
        if clause == "file-read-out-of-name-order":
            ctx.violate(clause, {"op": e.get("op"), "clause": clause}, {"session": n, "event": calls.describe_event(e)})
        elif clause in session.LOAD_CLAUSES:
            notes[clause] = notes.get(clause, 0) + 1
    extra["load_phase_notes"] = notes if loads else {"import-reads-not-observable": 1}
    extra["import_file_reads_observed"] = loads
    ctx.samples = [{"op": "merge", "l": pairs[7][0], "r": pairs[7][1]},
                   {"op": "load", "files": [[n, d] for n, d in cfgs[-1]["files"]]},
                   {"op": "registry.dump", "countries": extra["real_tree"]["countries"]}]
    extra.update({"merge_pairs_replayed": len(pairs), "directories_replayed": len(cfgs)})
    return {"rule": "every pair of the 144 small dictionaries through merge_dicts; every small directory (names x "
                    "documents x listing orders, v2 documents under 5 names) through the loader; the real tree's two "
                    "registries; an overlay's behavioural follow-through; distinct = distinct (op, arguments)",
            "distinct_nontrivial": len(pairs) + len(cfgs), "exhaustive": not ctx.quick, "extra": extra}
