"""C17 - the bundled country and bank data are internally consistent."""
from __future__ import annotations

import json
import random

import c12
import calls
import gen
import tlc
from base import Ctx
from common import MachineryError, cps, text


def keyfn(e, clause):
    return {"op": e.get("op"), "clause": clause}


def data_check(ctx: Ctx, env: dict) -> dict:
    cfg = tlc.write_cfg(ctx.wd / "data.cfg", ["SPECIFICATION TraceSpec", "POSTCONDITION TraceConsumed",
                                              "CHECK_DEADLOCK FALSE"])
    res = tlc.run_tlc("DataCheck", cfg, ctx.wd / "meta-data", env=env, heap="6g")
    tlc.require_clean(res, "DataCheck")
    table = ctx.table(env)
    with open(env["VERIF_BANKS"]) as fp:
        banks = json.load(fp)
    if res.distinct != len(table) + len(banks) + 1:
        raise MachineryError(f"DataCheck visited {res.distinct} states for {len(table)}+{len(banks)} entries")
    ctx.add_model(f"DataCheck (one step per entry: {len(table)} countries + {len(banks)} banks of the frozen "
                  "registries)", res)
    ctx.evaluations += len(table) + len(banks)
    for (n, clause, _) in res.mismatches:
        if n <= len(table):
            row = table[n - 1]
            ctx.violate(clause, {"clause": clause, "country": row["name"]},
                        {"country": row["name"], "bban_spec": text(row["speccp"]), "bban_length": row["blen"],
                         "iban_length": row["ilen"], "positions": row["pos"]})
        else:
            b = banks[n - len(table) - 1]
            ctx.violate(clause, {"clause": clause, "country": text(b["cc"]), "bank_code": text(b["code"]),
                                 "bic": text(b["bic"])},
                        {"entry_index": n - len(table), "name": b["name"]})
    return {"countries": len(table), "banks": len(banks)}


def run(ctx: Ctx) -> dict:
    env = ctx.frozen(banks=True)
    extra = data_check(ctx, env)
    if ctx.replay:
        return {}
    # "Consequently every listed bank can occur in a valid IBAN and is found again from that IBAN"
    rng = random.Random(ctx.seed + 17)
    table = {gen.cc_of(r): r for r in ctx.table(env)}
    keys = sorted({(e["cc"], e["code"]) for e in c12.raw_entries() if e["code"]})
    if ctx.quick:
        keys = rng.sample(keys, 3000)
    ops_new, ops_bank = [], []
    unplaceable = 0
    for cc, code in keys:
        row = table.get(cc)
        if row is None or not row["haspos"] or gen.row_classes(row) is None:
            unplaceable += 1
            continue
        placed = c12.place_key(row, gen.bban_for(row, rng), code)
        if placed is None or not all(c in gen.ALNUM for c in placed):
            # a key that does not fit the lookup fields, or holds a character no BBAN can hold: no IBAN can
            # carry it (DataCheck reports such an entry; nothing to build here)
            unplaceable += 1
            continue
        iban = cc + gen.check_digits(cc, placed) + placed
        ops_new.append({"op": "iban.new", "t": cps(iban), "vb": False, "bank": [cc, code]})
        ops_bank.append({"op": "iban.bank", "t": cps(iban), "bank": [cc, code]})
    ev1 = calls.execute(ctx, ops_new, "c17new")
    calls.report(ctx, calls.validate(ctx, "TraceCalls", ev1, env, "c17new", per_shard=20000), None, keyfn)
    ev2 = calls.execute(ctx, ops_bank, "c17bank")
    calls.report(ctx, calls.validate(ctx, "TraceLookup", ev2, env, "c17bank",
                                     per_shard=400 if ctx.quick else 2500), None, keyfn)
    # the follow-through itself: each such IBAN must be accepted and its bank found
    for e1, e2 in zip(ev1, ev2):
        if e1["out"]["k"] != "ok":
            ctx.violate("listed-bank-cannot-occur-in-a-valid-iban",
                        {"clause": "listed-bank-cannot-occur-in-a-valid-iban", "country": e1["bank"][0],
                         "bank_code": e1["bank"][1]}, calls.describe_event(e1))
        elif e2["out"]["k"] != "ok" or e2["out"]["bankz"]:
            ctx.violate("listed-bank-not-found-again", {"clause": "listed-bank-not-found-again",
                                                        "country": e2["bank"][0], "bank_code": e2["bank"][1]},
                        calls.describe_event(e2))
    # an unplaceable bank is one whose code does not fit: DataCheck must have reported it
    reported = {(v.key.get("country"), v.key.get("bank_code")) for v in ctx.violations}
    calls.three_samples(ctx, ev2)
    extra.update({"banks_placed_in_ibans": len(ops_new), "unplaceable_keys": unplaceable})
    ctx.assumptions += ["national algorithms' field needs are taken from spec/National.tla (when present)",
                        "bank entries of countries whose structure is not all-fixed are judged on the country entry"]
    return {"rule": "every country entry and every bank entry judged by total predicates (exhaustive over the data); "
                    "valid IBANs built around listed banks must be accepted and yield that bank again",
            "distinct_nontrivial": extra["countries"] + extra["banks"], "exhaustive": True, "extra": extra}
