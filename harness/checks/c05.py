"""C05 - validation is total and its errors name a defect that is really present."""
from __future__ import annotations

import json
import random

import c01
import c04
import calls
import gen
from base import Ctx
from common import MachineryError, cps, text

CLAUSES = {"non-library-exception", "class-not-a-present-defect", "is_valid-raised", "is_valid-not-bool",
           "object-answers-differently-when-asked-again",
           "constructor-and-is_valid-disagree", "validate-and-is_valid-disagree",
           "constructor-and-validate-raise-different-errors"}
# the acceptance clauses belong to C01 / C04; here they only matter through the
# "succeeds exactly when is_valid is true" cross-check (op consistency)


def keyfn(e, clause):
    out = e.get("out", {})
    cls = out.get("cls", "")
    if not cls and isinstance(out.get("new"), dict):
        cls = out["new"].get("cls", "") or out.get("isvalid", {}).get("cls", "")
    t = e.get("t", [])
    kind = "bic" if e.get("op", "").startswith("bic") or e.get("kind") == "bic" else "iban"
    return {"clause": clause, "kind": kind, "cls": cls,
            "non_ascii_digit": any(c > 127 and chr(c).isdigit() for c in t)}


def wide_ops(ctx: Ctx, table: list) -> list[dict]:
    rng = random.Random(ctx.seed + 5)
    alpha = gen.alphabet("thorough")            # totality: always the wide alphabet
    nonascii = [a for a in alpha if not (48 <= a <= 57 or 65 <= a <= 90 or 97 <= a <= 122)]   # everything illegal
    ops = []

    def iban(t, vb=False, entries=("iban.new", "iban.validate", "iban.is_valid")):
        c = cps(t) if isinstance(t, str) else list(t)
        for op in entries:
            ops.append({"op": op, "t": c, "vb": vb})

    def bic(t, strict=False, entries=("bic.new", "bic.validate", "bic.is_valid")):
        c = cps(t) if isinstance(t, str) else list(t)
        for op in entries:
            ops.append({"op": op, "t": c, "strict": strict})

    rows = [r for r in table if gen.row_classes(r) is not None]
    per_country = 1 if ctx.quick else 3
    for row in rows:
        for _ in range(per_country):
            base = cps(gen.valid_iban(row, rng))
            # every non-ASCII / control character at every head position and in one position
            # of each class run of the BBAN
            cls = gen.row_classes(row)
            spots = [0, 1, 2, 3] + sorted({4 + i for i in range(len(cls)) if i == 0 or cls[i] != cls[i - 1]}
                                           | {4 + len(cls) - 1})
            for p in spots:
                for a in (nonascii if not ctx.quick else rng.sample(nonascii, 20)):
                    t = base[:p] + [a] + base[p + 1:]
                    iban(t, vb=rng.random() < 0.3, entries=(rng.choice(("iban.new", "iban.validate", "iban.is_valid")),))
            # multi-defect inputs: wrong country / wrong length / illegal character combined
            for _ in range(6 if ctx.quick else 30):
                t = list(base)
                for _ in range(rng.choice((2, 3, 4))):
                    kind = rng.randrange(5)
                    if kind == 0:
                        t[0:2] = cps(rng.choice(["XX", "ZZ", "A1", "1A", "de", "äA", ""]))
                    elif kind == 1 and len(t) > 2:
                        del t[rng.randrange(len(t))]
                    elif kind == 2:
                        t.insert(rng.randrange(len(t) + 1), rng.choice(alpha))
                    elif kind == 3 and len(t) > 4:
                        t[rng.randrange(4, len(t))] = rng.choice(alpha)
                    elif len(t) > 3:
                        t[rng.randrange(2, 4)] = rng.choice(alpha)
                iban(t, vb=rng.random() < 0.5, entries=(rng.choice(("iban.new", "iban.validate")), "iban.is_valid"))
            ops.append({"op": "consistency", "kind": "iban", "t": base})
            bad = list(base)
            bad[rng.randrange(len(bad))] = rng.choice(alpha)
            ops.append({"op": "consistency", "kind": "iban", "t": bad})
    # national validation in every country that has a national algorithm: ISO-valid texts of every
    # shape the structure allows (letters wherever they may stand, extremes) - a national algorithm
    # must answer with a verdict or a library error, whatever the account looks like
    import c06
    for row in rows:
        # (countries without an algorithm too: the request must simply change nothing there)
        for i in range((8 if ctx.quick else 60) if gen.cc_of(row) in c06.NAT else (2 if ctx.quick else 12)):
            t = gen.valid_iban(row, rng, ("letters", "random", "high", "low")[i % 4])
            iban(t, vb=True, entries=("iban.new", "iban.validate"))
    # national validation through every kind of German bank: one bank code per Bundesbank method id
    # the registry names (implemented or not), plus unlisted codes - nothing but library errors
    import c07
    by_method = {}
    for code, meth in sorted(c07.de_bank_methods().items()):
        by_method.setdefault(meth, code)
    import c14
    chosen = c14.path_class_accounts(ctx, rng, 6 if ctx.quick else 12, "c05")
    for meth, code in sorted(by_method.items()):
        accts = ["".join(rng.choice("0123456789") for _ in range(10)) for _ in range(2 if ctx.quick else 10)]
        for a in accts + chosen.get(meth, []):          # random accounts and one per path class of the method
            b = code + a
            iban("DE" + gen.check_digits("DE", b) + b, vb=True, entries=("iban.new", "iban.validate"))
        # ... and every account of the method directly after every other one (the verdict on a text, and
        # so the error class raised for it, must not depend on the validation that happened before)
        fam = chosen.get(meth, [])
        for x in fam:
            for y in fam:
                if x != y:
                    for a in (x, y):
                        b = code + a
                        iban("DE" + gen.check_digits("DE", b) + b, vb=True, entries=("iban.new",))
    for code in ("00000000", "99999999"):
        b = code + "0532013000"
        iban("DE" + gen.check_digits("DE", b) + b, vb=True, entries=("iban.new", "iban.validate"))
    # short and degenerate texts
    for n in range(0, 8):
        for _ in range(40 if ctx.quick else 400):
            t = [rng.choice(alpha) for _ in range(n)]
            iban(t, vb=rng.random() < 0.5, entries=(rng.choice(("iban.new", "iban.validate", "iban.is_valid")),))
            bic(t, strict=rng.random() < 0.5, entries=(rng.choice(("bic.new", "bic.validate", "bic.is_valid")),))
            ops.append({"op": "consistency", "kind": rng.choice(("iban", "bic")), "t": t})
    # BIC: non-ASCII at every position, both modes
    for s in ("GENODEM1GLS", "1234DEWW", "MARKDEF1100"):
        base = cps(s)
        ops.append({"op": "consistency", "kind": "bic", "t": base})
        for p in range(len(base) + 1):
            for a in nonascii:
                for t in (base[:p] + [a] + base[p + 1:], base[:p] + [a] + base[p:]):
                    bic(t, strict=rng.random() < 0.5,
                        entries=(rng.choice(("bic.new", "bic.validate", "bic.is_valid")),))
                    if rng.random() < 0.1:
                        ops.append({"op": "consistency", "kind": "bic", "t": t})
    return ops


def run(ctx: Ctx) -> dict:
    if ctx.replay:
        rep = json.loads(ctx.replay.read_text())
        env = ctx.frozen(banks=False)
        ops = []
        for v in rep["violations"]:
            d = v["detail"]
            op = {k: d[k] for k in ("op", "t", "vb", "strict", "kind") if k in d}
            ops.append(op)
        events = calls.execute(ctx, ops, "replay")
        calls.report(ctx, calls.validate(ctx, "TraceCalls", events, env, "replay"), CLAUSES, keyfn)
        return {}
    extra = {}
    # specification level + replay of the model texts (shared with C01 / C04, reported under C05's clauses)
    sigma = c01.SIGMA_QUICK if not ctx.quick else [65, 66, 53, 55, 56, 32, 1632]
    before = len(ctx.violations)
    extra.update(c01.small_scope(ctx, 6, sigma, CLAUSES))
    extra.update(c04.bounded(ctx, CLAUSES))
    for v in ctx.violations[before:]:
        v.key = keyfn({"t": v.detail.get("t", []), "op": v.detail.get("op", ""), "out": v.detail.get("out", {})},
                      v.clause)
    env = ctx.frozen(banks=False)
    table = ctx.table(env)
    ops = wide_ops(ctx, table)
    # plus inputs chosen by coverage: mutants of a sample of these calls that take a line transition of
    # the package nothing before them took (every branch of the tree under test, however rarely entered)
    import fuzz
    simple = [o for o in ops if o["op"] != "consistency"]
    rngf = random.Random(ctx.seed + 55)
    ops += fuzz.corpus(ctx, rngf.sample(simple, min(len(simple), 1600)), 4000 if ctx.quick else 150000, "c05")
    events = calls.execute(ctx, ops, "wide")
    mism = calls.validate(ctx, "TraceCalls", events, env, "wide", per_shard=15000)
    calls.report(ctx, mism, CLAUSES, keyfn)
    # "InvalidBBANChecksum names a defect really present": every event with national validation is also
    # judged by the national verdict operators (the published algorithms of National / Bundesbank)
    import c06
    nenv = c06.algos_env(ctx, ctx.frozen(banks=True))
    nat = [e for e in events if e.get("vb") and e["op"] in ("iban.new", "iban.validate")]
    nmism = calls.validate(ctx, "TraceNational", nat, nenv, "widenat", per_shard=15000)
    calls.report(ctx, [m for m in nmism if m[1] in ("rejected-but-nationally-valid", "non-library-exception")],
                 None, keyfn)
    n_exc = sum(1 for e in events if e["out"]["k"] == "exc")
    classes = {}
    for e in events:
        if e["out"]["k"] == "exc":
            classes[e["out"]["cls"]] = classes.get(e["out"]["cls"], 0) + 1
    for need in ("InvalidCountryCode", "InvalidLength", "InvalidStructure", "InvalidChecksumDigits"):
        if classes.get(need, 0) == 0 and not ctx.violations:
            raise MachineryError(f"vacuous: error class {need} never observed")
    distinct = len({(tuple(e["t"]), e["op"], e.get("vb"), e.get("strict")) for e in events})
    ctx.samples = [calls.describe_event(e) for e in (events[1], events[len(events) // 2], events[-1])]
    for s in ctx.samples:
        s.pop("t", None)
    ctx.assumptions += [
        "Defects() is liberal: every class that truthfully describes the text is allowed, not only the first "
        "failing stage", "with national validation requested an error for an ISO-valid text may be any library "
        "class (C06 judges the national verdict itself)"]
    extra.update({"wide_events": len(events), "raised": n_exc, "error_classes_seen": classes})
    return {"rule": "every country x non-ASCII/control characters at every head position and class boundary, "
                    "multi-defect edits, all short texts, BIC positions x non-ASCII, with and without national "
                    "validation / strict mode, plus constructor/validate/is_valid cross-checks; distinct = distinct "
                    "(text, entry point, flags)",
            "distinct_nontrivial": distinct, "exhaustive": False, "extra": extra}
