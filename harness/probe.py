"""Runs inside the target interpreter: executes a batch of library calls and
records their observable outcome.  This is the only harness file that imports
schwifty.  It decides nothing; it projects results to plain data.

usage: probe.py OPS.json OUT.json
OPS: a list of {"op": name, ...args}; texts are lists of code points.
OUT: a list of outcomes, {"k":"ok", ...} or {"k":"exc","cls":..,"lib":bool}
"""
from __future__ import annotations

import copy
import json
import pickle
import sys
import warnings

warnings.simplefilter("ignore")

import schwifty  # noqa: E402
from schwifty import BIC, IBAN  # noqa: E402
from schwifty import exceptions as exc_mod  # noqa: E402
from schwifty.bban import BBAN  # noqa: E402

COMPONENTS = ["account_id", "account_type", "account_code", "account_holder_id",
              "currency_code", "bank_code", "branch_code", "national_checksum_digits"]


def T(cp):
    return "".join(chr(c) for c in cp)


def C(s):
    return [ord(c) for c in s]


def opt(s):
    """None-able string -> tagged"""
    return {"z": True, "c": []} if s is None else {"z": False, "c": C(str(s))}


# ------------------------------------------------------------------ handlers
class _Str(str):
    pass


def _wrapped(a, t, cls):
    """The argument as the caller may hold it: a plain str, a str subclass, or an unvalidated object."""
    w = a.get("wrap")
    if w == "strsub":
        return _Str(t)
    if w == "object":
        return cls(t, allow_invalid=True)
    return t


def iban_new(a):
    o = IBAN(_wrapped(a, T(a["t"]), IBAN), validate_bban=a.get("vb", False))
    return {"val": C(str(o))}


def _ask(fn):
    try:
        return ("ok", fn() is True)
    except Exception as e:  # noqa: BLE001
        return ("exc", type(e).__name__)


def _asked_again(o, first, fn, other=None, again=3):
    """The same OBJECT asked the same question again (objects never change): same answer? And asked the
    OTHER question (the other flag value) in between: the answer a fresh object gives to that question,
    and afterwards the first answer once more?"""
    same = all(_ask(fn) == first for _ in range(again)) and _ask(lambda: o.is_valid)[0] == "ok"
    if other is not None:
        on_same, on_fresh = other
        same = same and _ask(lambda: on_same(o)) == _ask(on_fresh) and _ask(fn) == first
    return same


def _answer_of(o, fn, other=None):
    """Outcome of fn() on object o, with the note whether asking again gives the same outcome."""
    try:
        r = fn()
    except Exception as e:  # noqa: BLE001
        e.verif_again = _asked_again(o, ("exc", type(e).__name__), fn, other)
        raise
    return {"ret": r is True, "rett": type(r).__name__, "val": C(str(o)),
            "again": _asked_again(o, ("ok", r is True), fn, other)}


def iban_validate(a):
    t, vb = T(a["t"]), a.get("vb", False)
    o = IBAN(t, allow_invalid=True)
    return _answer_of(o, lambda: o.validate(vb),
                      (lambda x: x.validate(not vb), lambda: IBAN(t, allow_invalid=True).validate(not vb)))


def iban_is_valid(a):
    t = T(a["t"])
    o = IBAN(t, allow_invalid=True)
    return _answer_of(o, lambda: o.is_valid,
                      (lambda x: x.validate(True), lambda: IBAN(t, allow_invalid=True).validate(True)))


def bic_new(a):
    o = BIC(_wrapped(a, T(a["t"]), BIC), enforce_swift_compliance=a.get("strict", False))
    return {"val": C(str(o))}


def bic_validate(a):
    t, strict = T(a["t"]), a.get("strict", False)
    o = BIC(t, allow_invalid=True)
    return _answer_of(o, lambda: o.validate(strict),
                      (lambda x: x.validate(not strict), lambda: BIC(t, allow_invalid=True).validate(not strict)))


def bic_is_valid(a):
    t = T(a["t"])
    o = BIC(t, allow_invalid=True)
    return _answer_of(o, lambda: o.is_valid,
                      (lambda x: x.validate(True), lambda: BIC(t, allow_invalid=True).validate(True)))


def iban_fields(o):
    d = {"val": C(str(o)), "compact": C(o.compact), "formatted": C(o.formatted), "length": o.length,
         "len": len(o), "cc": C(o.country_code), "dd": C(o.checksum_digits), "bban": C(str(o.bban)),
         "bban_cc": C(o.bban.country_code), "cls": type(o).__name__, "bban_cls": type(o.bban).__name__}
    d["comp"] = {n: C(getattr(o, n)) for n in COMPONENTS}
    d["bcomp"] = {n: C(getattr(o.bban, n)) for n in COMPONENTS}
    return d


def iban_parts(a):
    o = IBAN(T(a["t"]), allow_invalid=a.get("ai", False))
    d = iban_fields(o)
    rb = IBAN.from_bban(o.country_code, o.bban, allow_invalid=a.get("ai", False))
    d["rebuilt"] = C(str(rb))
    d["rebuilt_eq"] = bool(rb == o)
    rs = IBAN.from_bban(o.country_code, str(o.bban), allow_invalid=a.get("ai", False))
    d["rebuilt_s"] = C(str(rs))
    d["reparse_fmt"] = C(str(IBAN(o.formatted, allow_invalid=a.get("ai", False))))
    if not a.get("ai", False):
        try:
            sz, c = o.in_sepa_zone, o.country
            d["info"] = {"k": "ok", "numeric": C(str(o.numeric)), "sepa": bool(sz), "sepat": type(sz).__name__,
                         "country": C(c.alpha_2) if c is not None else [], "spec_len": o.spec["iban_length"],
                         "spec_blen": o.spec["bban_length"]}
        except Exception as e:  # noqa: BLE001
            d["info"] = {"k": "exc", "cls": type(e).__name__}
    return d


def bic_fields(o):
    return {"val": C(str(o)), "compact": C(o.compact), "formatted": C(o.formatted), "length": o.length,
            "party": C(o.bank_code), "cc": C(o.country_code), "loc": C(o.location_code),
            "branch": C(o.branch_code), "cls": type(o).__name__}


def bic_parts(a):
    o = BIC(T(a["t"]), allow_invalid=a.get("ai", False))
    d = bic_fields(o)
    d["reparse_fmt"] = C(str(BIC(o.formatted, allow_invalid=a.get("ai", False))))
    if len(o) in (8, 11):
        d["type"] = o.type
    return d


def from_bban(a):
    o = IBAN.from_bban(T(a["cc"]), T(a["bban"]), allow_invalid=a.get("ai", False),
                       validate_bban=a.get("vb", False))
    return {"val": C(str(o))}


def variants(a):
    """C10: construct two texts; report outcomes, equality and hash agreement."""
    kind = a["kind"]
    cls = IBAN if kind == "iban" else BIC
    res = {}
    objs = []
    for key in ("t", "u"):
        try:
            o = cls(T(a[key]))
            res[key] = {"k": "ok", "val": C(str(o))}
        except Exception as e:  # noqa: BLE001
            res[key] = {"k": "exc", "cls": type(e).__name__, "lib": isinstance(e, exc_mod.SchwiftyException)}
        oi = cls(T(a[key]), allow_invalid=True)
        objs.append(oi)
        res[key + "_ai"] = C(str(oi))
        res[key + "_fmt"] = C(oi.formatted) if (kind == "iban" or len(oi) >= 8) else []
    res["eq"] = bool(objs[0] == objs[1])
    res["hash_eq"] = hash(objs[0]) == hash(objs[1])
    return res


def _one(fn):
    try:
        r = fn()
        return {"k": "ok", "ret": r is True, "rett": type(r).__name__}
    except Exception as e:  # noqa: BLE001
        return {"k": "exc", "cls": type(e).__name__, "lib": isinstance(e, exc_mod.SchwiftyException)}


def consistency(a):
    cls = IBAN if a["kind"] == "iban" else BIC
    t = T(a["t"])
    return {"new": _one(lambda: bool(cls(t)) or True),
            "validate": _one(lambda: cls(t, allow_invalid=True).validate()),
            "isvalid": _one(lambda: cls(t, allow_invalid=True).is_valid)}


HANDLERS = {
    "consistency": consistency,
    "iban.new": iban_new,
    "iban.validate": iban_validate,
    "iban.is_valid": iban_is_valid,
    "bic.new": bic_new,
    "bic.validate": bic_validate,
    "bic.is_valid": bic_is_valid,
    "iban.parts": iban_parts,
    "bic.parts": bic_parts,
    "iban.from_bban": from_bban,
    "variants": variants,
}

try:  # optional extension handlers (added as the specification grows)
    import probe_ext  # noqa: E402

    HANDLERS.update(probe_ext.HANDLERS)
except ImportError:
    pass


def run(op):
    try:
        out = HANDLERS[op["op"]](op)
        out["k"] = "ok"
        return out
    except Exception as e:  # noqa: BLE001
        out = {"k": "exc", "cls": type(e).__name__, "lib": isinstance(e, exc_mod.SchwiftyException),
               "msg": str(e)[:120]}
        if hasattr(e, "verif_again"):
            out["again"] = e.verif_again
        return out


def main():
    with open(sys.argv[1]) as fp:
        ops = json.load(fp)
    outs = [run(op) for op in ops]
    with open(sys.argv[2], "w") as fp:
        json.dump(outs, fp)


if __name__ == "__main__":
    main()
