"""Syntactic export of registry JSON files into a form TLC's Json module can read.

Nothing is interpreted here: no merging, no structure parsing, no indexes.
Every JSON value becomes a tagged node

    dict   {"t":"d","k":[keys],"kc":[[code points]...],"v":[nodes]}   (keys in file order)
    list   {"t":"l","v":[nodes]}
    string {"t":"s","s":"...","c":[code points]}
    int    {"t":"i","n":n}     bool {"t":"b","b":true}     null {"t":"z"}
    float  {"t":"f","s":"repr"}

(TLC's JsonDeserialize rejects JSON null and cannot compare an integer with a
string, hence the tags.)  Code points are attached to every string shorter
than CP_LIMIT characters so that the specification can look inside country
keys, structure strings, bank codes and BICs; longer strings (bank names) are
compared as atoms.
"""
from __future__ import annotations

import json
import os
from pathlib import Path

CP_LIMIT = 64


def cps(s: str) -> list[int]:
    return [ord(ch) for ch in s]


def tag(value):
    if isinstance(value, dict):
        keys = list(value.keys())
        return {"t": "d", "k": keys, "kc": [cps(k) for k in keys], "v": [tag(value[k]) for k in keys]}
    if isinstance(value, list):
        return {"t": "l", "v": [tag(v) for v in value]}
    if isinstance(value, bool):
        return {"t": "b", "b": value}
    if isinstance(value, int):
        return {"t": "i", "n": value}
    if isinstance(value, str):
        return {"t": "s", "s": value, "c": cps(value) if len(value) < CP_LIMIT else []}
    if value is None:
        return {"t": "z"}
    if isinstance(value, float):
        return {"t": "f", "s": repr(value)}
    raise TypeError(type(value))


def untag(node):
    t = node["t"]
    if t == "d":
        return {k: untag(v) for k, v in zip(node["k"], node["v"])}
    if t == "l":
        return [untag(v) for v in node["v"]]
    if t == "s":
        return node["s"]
    if t == "i":
        return node["n"]
    if t == "b":
        return node["b"]
    if t == "z":
        return None
    if t == "f":
        return float(node["s"])
    raise ValueError(t)


def export_dir(directory: Path) -> dict:
    """All *.json files of a registry directory, in *directory listing* order
    (deliberately not sorted: ordering the names is the specification's job)."""
    files = []
    names = [n for n in os.listdir(directory) if n.endswith(".json")]
    # a deterministic but deliberately non-alphabetical order
    names.sort(key=lambda n: (len(n), n[::-1]))
    for name in names:
        with open(directory / name, encoding="utf-8") as fp:
            doc = json.load(fp)
        files.append({"name": name, "nc": cps(name), "tree": tag(doc)})
    return {"files": files}


def export_registry(package_dir: Path, out_dir: Path) -> dict[str, Path]:
    out = {}
    for kind in ("iban", "bank"):
        data = export_dir(package_dir / f"{kind}_registry")
        path = out_dir / f"{kind}_files.json"
        with open(path, "w", encoding="utf-8") as fp:
            json.dump(data, fp, ensure_ascii=True)
        out[kind] = path
    return out


if __name__ == "__main__":
    import sys

    pkg = Path(sys.argv[1])
    dst = Path(sys.argv[2])
    dst.mkdir(parents=True, exist_ok=True)
    print(export_registry(pkg, dst))
