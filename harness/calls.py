"""Drive library calls, record one event per call, validate the trace with TLC."""
from __future__ import annotations

import json
from pathlib import Path

import gen
import tlc
from base import Ctx
from common import NCPU, chunks, run_probes_parallel, text


def execute(ctx: Ctx, ops: list[dict], tag: str, extra_path: Path | None = None) -> list[dict]:
    """Run ops through the probe (parallel) and return events (op + i + out + flags)."""
    parts = chunks(ops, NCPU)
    outs = run_probes_parallel(parts, ctx.wd, tag, extra_path)
    events = []
    for part, out in zip(parts, outs):
        for op, o in zip(part, out):
            e = dict(op)
            e["i"] = len(events)
            e["out"] = o
            if "t" in e and "judge" not in e:
                e["judge"], e["cmp"] = gen.flags(e["t"])
            if "acct" in e and "bank" in e and "cmp" not in e:
                # components: is the Unicode upper-casing of every character the ASCII one the spec applies?
                e["cmp"] = all(gen.flags(e.get(k) or [])[1] for k in ("bank", "branch", "acct"))
            events.append(e)
    return events


def validate(ctx: Ctx, module: str, events: list[dict], env: dict, tag: str, per_shard: int = 6000,
             heap: str = "3g") -> list[tuple]:
    """Validate events against trace spec `module`; returns [(event, clause, extra)]."""
    if not events:
        return []
    n = max(1, min(NCPU, (len(events) + per_shard - 1) // per_shard))
    shards = chunks(events, n)
    results = tlc.validate_trace_shards(module, shards, ctx.wd, env, tag, heap=heap)
    ctx.add_trace_results(results, len(events), module)
    by_id = {e["i"]: e for e in events}
    mism = []
    for r in results:
        for (i, clause, extra) in r.mismatches:
            mism.append((by_id[i], clause, extra))
    return mism


def describe_event(e: dict) -> dict:
    d = {k: v for k, v in e.items() if k not in ("t", "u", "out", "judge", "cmp")}
    for k in ("t", "u", "cc", "bban"):
        if k in e and isinstance(e[k], list):
            d[k + "_text"] = text(e[k]).encode("unicode_escape").decode()
            d[k] = e[k]
    d["out"] = e.get("out")
    return d


def report(ctx: Ctx, mismatches: list[tuple], clauses: set[str] | None = None, keyfn=None) -> int:
    """Turn TLC mismatches into violations of ctx.prop (only clauses this property owns)."""
    n = 0
    for e, clause, extra in mismatches:
        if clauses is not None and clause not in clauses:
            continue
        key = keyfn(e, clause) if keyfn else {"op": e.get("op"), "clause": clause,
                                              "cls": e.get("out", {}).get("cls", "")}
        ctx.violate(clause, key, describe_event(e))
        n += 1
    return n


ARG_FIELDS = ("op", "t", "u", "vb", "strict", "kind", "ai", "cc", "bban", "args", "country", "values", "seed",
              "use_registry", "code", "bic", "account", "method")


def replay(ctx: Ctx, module: str, env: dict, clauses: set | None = None, keyfn=None) -> None:
    """Re-execute the calls of a replay file and validate them again."""
    with open(ctx.replay) as fp:
        rep = json.load(fp)
    ops = [{k: v["detail"][k] for k in ARG_FIELDS if k in v["detail"]} for v in rep["violations"]
           if "op" in v["detail"]]
    events = execute(ctx, ops, "replay")
    report(ctx, validate(ctx, module, events, env, "replay"), clauses, keyfn)


def three_samples(ctx: Ctx, events: list[dict]) -> None:
    if not events:
        return
    ctx.samples = [describe_event(e) for e in (events[0], events[len(events) // 2], events[-1])]
    for s in ctx.samples:
        for k in ("t", "u", "bban", "cc"):
            if isinstance(s.get(k), list):
                s.pop(k)
