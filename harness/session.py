"""Whole-session traces: one fresh interpreter = one session (load phase observed at import,
then a mixture of calls of every kind), validated against spec/Schwifty.tla."""
from __future__ import annotations

import json
import random
import subprocess

import c06
import c08
import c12
import calls
import gen
import tlc
from base import Ctx
from common import HARNESS, NCPU, PYTHON, MachineryError, chunks, cps, package_dir, py_env, text

LOAD_CLAUSES = {"file-read-out-of-name-order", "more-files-read-than-the-directory-holds",
                "registry-file-read-after-load-finished", "registry-not-completely-loaded",
                "call-before-the-registry-was-loaded"}
NAMES = c08.NAMES


def mixed_ops(ctx: Ctx, env: dict, rng: random.Random, n: int) -> list[dict]:
    """A mixture of calls of every kind the specification judges."""
    table = {gen.cc_of(r): r for r in ctx.table(env) if gen.row_classes(r) is not None}
    ccs = sorted(table)
    keys = sorted({(e["cc"], e["code"]) for e in c12.raw_entries() if e["code"] and e["cc"] in table})
    natv = c06.national_valid_ibans(ctx, table, rng, 2, "session")
    alpha = gen.alphabet("quick")
    ops = []
    for _ in range(n):
        kind = rng.randrange(16)
        row = table[rng.choice(ccs)]
        cc = gen.cc_of(row)
        iban = gen.valid_iban(row, rng)
        if kind == 0:
            t = cps(iban)
            if rng.random() < 0.5:
                t[rng.randrange(len(t))] = rng.choice(alpha)
            ops.append({"op": rng.choice(("iban.new", "iban.validate", "iban.is_valid")), "t": t, "vb": False})
        elif kind == 1:
            t = cps(rng.choice(natv)) if rng.random() < 0.7 else cps(iban)
            if rng.random() < 0.3:
                p = rng.randrange(4, len(t))
                t[p] = ord(rng.choice("0123456789")) if 48 <= t[p] <= 57 else t[p]
            ops.append({"op": rng.choice(("iban.new", "iban.validate")), "t": t, "vb": True})
        elif kind == 2:
            t = cps(rng.choice(["GENODEM1GLS", "GENODEM1", "1234DEWWXXX", "MARKDEF1100", "ABCDXK22", "AB12FRPP"]))
            if rng.random() < 0.4:
                t[rng.randrange(len(t))] = rng.choice(alpha)
            ops.append({"op": rng.choice(("bic.new", "bic.validate", "bic.is_valid")), "t": t,
                        "strict": rng.random() < 0.5})
        elif kind == 3:
            ops.append({"op": "iban.parts", "t": cps(iban), "ai": False})
        elif kind == 4:
            ops.append({"op": "bic.parts", "t": cps(rng.choice(["GENODEM1GLS", "DEUTDEFF", "AB12FRPPXXX"])), "ai": False})
        elif kind == 5:
            u = cps(" ".join(iban[i:i + 4] for i in range(0, len(iban), 4)).lower())
            ops.append({"op": "variants", "kind": "iban", "t": cps(iban), "u": u})
        elif kind == 6:
            ops.append({"op": "consistency", "kind": rng.choice(("iban", "bic")),
                        "t": cps(iban) if rng.random() < 0.5 else cps("GENODEM1GLS")})
        elif kind == 7:
            ops.append({"op": "iban.from_bban", "cc": cps(cc), "bban": cps(iban[4:]), "ai": False, "vb": False})
        elif kind == 8:
            ops.append({"op": "bban.nat", "t": cps(rng.choice(natv))})
        elif kind == 9:
            kc, code = rng.choice(keys)
            if rng.random() < 0.3:
                code = code[::-1]
            ops.append({"op": "bic.lookup", "cc": cps(kc), "code": cps(code)})
        elif kind == 10:
            kc, code = rng.choice(keys)
            placed = c12.place_key(table[kc], gen.bban_for(table[kc], rng), code)
            if placed:
                ops.append({"op": "iban.bank", "t": cps(kc + gen.check_digits(kc, placed) + placed)})
        elif kind == 11 and row["haspos"]:
            wb, wr, wa = (c08.width(row, x) for x in ("bank_code", "branch_code", "account_code"))
            ops.append({"op": rng.choice(("iban.generate", "bban.from_components")), "cc": cps(cc),
                        "bank": cps(c08.field_chars(row, "bank_code", rng, rng.choice([wb, wb, wb + 1]))),
                        "branch": cps(c08.field_chars(row, "branch_code", rng, wr) if wr else ""),
                        "acct": cps(c08.field_chars(row, "account_code", rng, rng.choice([wa, max(wa - 1, 1)])))})
        elif kind == 12 and row["haspos"]:
            ops.append({"op": "iban.rebuild", "t": cps(iban if cc not in c06.NAT else rng.choice(natv))})
        elif kind == 13:
            ops.append({"op": rng.choice(("iban.random", "bban.random")), "country": cps(cc) if rng.random() < 0.9 else [],
                        "seed": rng.randrange(10 ** 6), "use_registry": rng.random() < 0.5, "pinned": [],
                        "vals": {x: [] for x in NAMES}})
        elif kind == 14:
            a = {"cls": "IBAN", "text": cps(iban), "cc": [], "via": [rng.choice(["copy", "deepcopy", "pickle2"])]}
            b = {"cls": rng.choice(["str", "BBAN"]), "text": cps(iban[4:]), "cc": cps(cc), "via": []}
            ops.append({"op": "values", "kind": rng.choice(["cmp", "hash", "dict", "sort", "props"]), "a": a, "b": b})
        elif kind == 15:
            m = rng.choice(["00", "06", "13", "24", "32", "61", "68", "88", "91"])
            ops.append({"op": "algo.validate", "method": m,
                        "account": cps("".join(rng.choice("0123456789") for _ in range(10)))})
    return ops


def names_files(ctx: Ctx) -> dict:
    out = {}
    for kind in ("iban", "bank"):
        names = sorted((p.name for p in (package_dir() / f"{kind}_registry").glob("*.json")), key=lambda s: s[::-1])
        p = ctx.wd / f"{kind}_names.json"
        p.write_text(json.dumps({"names": [{"name": n, "nc": cps(n)} for n in names]}))
        out[f"VERIF_{kind.upper()}_NAMES"] = str(p)
    return out


def run_sessions(ctx: Ctx, env: dict, op_lists: list[list[dict]], tag: str) -> list[list[dict]]:
    """One fresh interpreter per op list; returns the recorded sessions (events with outcomes)."""
    sessions = [None] * len(op_lists)
    for base in range(0, len(op_lists), NCPU):
        procs = []
        for n, ops in enumerate(op_lists[base:base + NCPU]):
            ip = ctx.wd / f"{tag}-sess-ops-{base + n}.json"
            op = ctx.wd / f"{tag}-sess-out-{base + n}.json"
            ip.write_text(json.dumps(ops))
            procs.append((subprocess.Popen([PYTHON, str(HARNESS / "session_probe.py"), str(ip), str(op)], env=py_env(),
                                           stdout=subprocess.PIPE, stderr=subprocess.PIPE, text=True), op, base + n))
        for p, op, idx in procs:
            _, err = p.communicate()
            if p.returncode != 0:
                raise MachineryError("session_probe failed: " + err[-1500:])
            sessions[idx] = json.loads(op.read_text())
    return sessions


def validate_sessions(ctx: Ctx, env: dict, sessions: list[list[dict]], tag: str) -> list[tuple]:
    """Each session is one trace of spec/Schwifty.tla; returns [(session number, event, clause)]."""
    env = dict(c06.algos_env(ctx, env))
    env.update(names_files(ctx))
    cfg_lines = ["SPECIFICATION Spec", "POSTCONDITION TraceConsumed", "CHECK_DEADLOCK FALSE", "INVARIANT TypeOK",
                 "PROPERTY ReadyIsStable"]
    shards = []
    for s in sessions:
        evs = []
        for i, e in enumerate(s):
            e = dict(e)
            e["i"] = i
            if "acct" in e and "bank" in e and "cmp" not in e:
                e["cmp"] = all(gen.flags(e.get(k) or [])[1] for k in ("bank", "branch", "acct"))
            if "t" in e and "judge" not in e:
                e["judge"], e["cmp"] = gen.flags(e["t"])
                if "u" in e:
                    j2, c2 = gen.flags(e["u"])
                    e["judge"], e["cmp"] = e["judge"] and j2, e["cmp"] and c2
            evs.append(e)
        shards.append(evs)
    results = tlc.validate_trace_shards("Schwifty", shards, ctx.wd, env, tag, heap="6g", cfg_lines=cfg_lines)
    ctx.add_trace_results(results, sum(len(s) for s in shards), "Schwifty (whole sessions: load phase + mixed calls)")
    out = []
    for n, r in enumerate(results):
        for (i, clause, _) in r.mismatches:
            out.append((n, shards[n][i], clause))
    return out
