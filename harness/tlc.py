"""Running TLC and reading what it says."""
from __future__ import annotations

import json
import os
import re
import subprocess
import time
from concurrent.futures import ThreadPoolExecutor
from dataclasses import dataclass, field
from pathlib import Path

from common import NCPU, SPEC, MachineryError, log

JAR = "/opt/veriftools/tla/tla2tools.jar:/opt/veriftools/tla/CommunityModules-deps.jar"


@dataclass
class TlcResult:
    rc: int
    out: str
    states: int = 0
    distinct: int = 0
    depth: int = 0
    wall: float = 0.0
    mismatches: list = field(default_factory=list)   # (event id, clause)
    notes: list = field(default_factory=list)        # other PrintT tuples
    coverage: dict = field(default_factory=dict)     # action -> (distinct, total)
    violated: str | None = None                      # invariant / property name
    init_states: int = 0

    @property
    def ok(self) -> bool:
        return self.rc == 0


_STATS = re.compile(r"(\d+) states generated, (\d+) distinct states found")
_DEPTH = re.compile(r"depth of the complete state graph search is (\d+)")
_MIS = re.compile(r'<<"MISMATCH", (-?\d+), "([^"]*)"(?:, "([^"]*)")?>>')
_NOTE = re.compile(r'<<"(NOTE|UNSETTLED|INFO)", (.*)>>')
_COV = re.compile(r"<(\w+) line \d+, col \d+ to line \d+, col \d+ of module (\w+)(?: \([\d ]+\))?>: (\d+):(\d+)")
_INIT = re.compile(r"Finished computing initial states: (\d+) distinct state")
_INV = re.compile(r"Invariant (\w+) is violated|Action property (\w+) is violated|Temporal properties were violated")


def run_tlc(module: str, cfg: Path, meta: Path, env: dict | None = None, workers: int | str = 1,
            extra: list[str] | None = None, heap: str = "4g", timeout: int = 7200,
            cwd: Path | None = None, deque: bool = False) -> TlcResult:
    """module: name (file <module>.tla must be in cwd, default /verif/spec)."""
    cwd = cwd or SPEC
    e = dict(os.environ)
    if env:
        e.update({k: str(v) for k, v in env.items()})
    # TLC's scratch directories go where the run's other files go (removed with them), not to /tmp
    jtmp = Path(cfg).parent / "jtmp"
    jtmp.mkdir(parents=True, exist_ok=True)
    cmd = ["java", "-XX:+UseParallelGC", f"-Xmx{heap}", "-Xss64m", f"-DTLA-Library={SPEC}", f"-Djava.io.tmpdir={jtmp}"]
    if deque:
        cmd.append("-Dtlc2.tool.queue.IStateQueue=StateDeque")
    cmd += ["-cp", JAR, "tlc2.TLC", "-workers", str(workers), "-metadir", str(meta),
            "-noGenerateSpecTE", "-config", str(cfg)]
    if extra:
        cmd += extra
    cmd.append(module)
    t0 = time.time()
    try:
        p = subprocess.run(cmd, cwd=cwd, env=e, capture_output=True, text=True, timeout=timeout)
    except subprocess.TimeoutExpired as ex:
        raise MachineryError(f"TLC timed out on {module} after {timeout}s") from ex
    res = TlcResult(rc=p.returncode, out=p.stdout + p.stderr, wall=time.time() - t0)
    for m in _STATS.finditer(res.out):
        res.states, res.distinct = int(m.group(1)), int(m.group(2))
    m = _DEPTH.search(res.out)
    if m:
        res.depth = int(m.group(1))
    for m in _MIS.finditer(res.out):
        res.mismatches.append((int(m.group(1)), m.group(2), m.group(3) or ""))
    for m in _NOTE.finditer(res.out):
        res.notes.append((m.group(1), m.group(2)))
    for m in _COV.finditer(res.out):
        name = m.group(1)
        prev = res.coverage.get(name, (0, 0))
        res.coverage[name] = (prev[0] + int(m.group(3)), prev[1] + int(m.group(4)))
    m = _INIT.search(res.out)
    if m:
        res.init_states = int(m.group(1))
    m = _INV.search(res.out)
    if m:
        res.violated = m.group(1) or m.group(2) or "temporal"
    return res


def require_clean(res: TlcResult, what: str) -> None:
    """A model / trace run must end with TLC's success exit code."""
    if res.rc != 0:
        tail = "\n".join(res.out.splitlines()[-40:])
        raise MachineryError(f"TLC failed on {what} (rc={res.rc}):\n{tail}")


def write_cfg(path: Path, lines: list[str]) -> Path:
    path.write_text("\n".join(lines) + "\n")
    return path


def validate_trace_shards(module: str, shards: list[list], wd: Path, env: dict, tag: str,
                          heap: str = "3g", cfg_lines: list[str] | None = None) -> list[TlcResult]:
    """Validate event lists (each shard one JVM, in parallel) against trace spec `module`.
    The trace spec reads its events from the file named by env VERIF_TRACE and must
    consume every line (POSTCONDITION TraceConsumed)."""
    cfg = write_cfg(wd / f"{tag}.cfg", cfg_lines or [
        "SPECIFICATION TraceSpec", "POSTCONDITION TraceConsumed", "CHECK_DEADLOCK FALSE"])

    def one(n_shard):
        n, shard = n_shard
        tf = wd / f"{tag}-trace-{n}.json"
        with open(tf, "w") as fp:
            json.dump(shard, fp)
        e = dict(env)
        e["VERIF_TRACE"] = str(tf)
        r = run_tlc(module, cfg, wd / f"{tag}-meta-{n}", env=e, workers=1, heap=heap)
        if r.rc != 0:
            tail = "\n".join(r.out.splitlines()[-30:])
            raise MachineryError(f"trace validation {module} shard {n} failed rc={r.rc}:\n{tail}")
        if r.distinct != len(shard) + 1:
            raise MachineryError(f"trace {module} shard {n}: {r.distinct} states for {len(shard)} events")
        return r

    with ThreadPoolExecutor(max_workers=NCPU) as ex:
        return list(ex.map(one, list(enumerate(shards))))
