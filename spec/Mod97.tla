-------------------------------- MODULE Mod97 --------------------------------
(***************************************************************************)
(* ISO 7064 mod 97-10 as ISO 13616 uses it.  All arithmetic is done on     *)
(* residues so that TLC's 32-bit integers are never exceeded.              *)
(***************************************************************************)
EXTENDS Text

\* Appending one alphanumeric to a numeric string changes its residue thus
\* (digits contribute one decimal place, letters two: A=10 .. Z=35).
Step97(r, c) ==
    LET v == AlphaVal(c)
    IN  IF v < 10 THEN (r * 10 + v) % 97 ELSE (r * 100 + v) % 97

TwoDigits0(n) == <<48 + (n \div 10), 48 + (n % 10)>>
RECURSIVE Mod97From(_, _, _)
Mod97From(s, i, r) == IF i > Len(s) THEN r ELSE Mod97From(s, i + 1, Step97(r, s[i]))

\* Residue of the decimal expansion of an alphanumeric text.
Mod97(s) == Mod97From(s, 1, 0)

\* The decimal expansion itself, as a text of digits (what IBAN.numeric denotes): digits stand for
\* themselves, letters for two digits; read as a number, leading zeros do not count.
RECURSIVE ExpansionFrom(_, _)
ExpansionFrom(s, i) ==
    IF i > Len(s) THEN <<>>
    ELSE (IF AlphaVal(s[i]) < 10 THEN <<s[i]>> ELSE TwoDigits0(AlphaVal(s[i]))) \o ExpansionFrom(s, i + 1)
Expansion(s) == ExpansionFrom(s, 1)
RECURSIVE StripZeros(_)
StripZeros(d) == IF Len(d) > 1 /\ d[1] = 48 THEN StripZeros(Tail(d)) ELSE d
NumericText(s) == LET d == StripZeros(Expansion(s)) IN IF d = <<>> THEN <<48>> ELSE d

\* BBAN followed by country code and check digits: the ISO 13616 rearrangement.
Rearranged(s) == Tail0(s, 4) \o SubSeq(s, 1, 4)

TwoDigits(n) == <<48 + (n \div 10), 48 + (n % 10)>>
DigitsVal(dd) == (dd[1] - 48) * 10 + (dd[2] - 48)

\* The check digits ISO 13616 prescribes: 98 - (BBAN cc "00" mod 97), in 02..98.
CheckNum(cc, bban) == 98 - Mod97(bban \o cc \o <<48, 48>>)
CheckDigits(cc, bban) == TwoDigits(CheckNum(cc, bban))

\* s is alphanumeric, at least 4 long, digits at 3..4: is its checksum right?
\* Both conditions of the standard: remainder 1 AND canonical digits (the
\* aliases 00, 01, 99 of 97, 98, 02 leave remainder 1 too and are not valid).
IsoOK(s) ==
    /\ Len(s) >= 4
    /\ AllIn(s, IsAlnum)
    /\ IsDigit(s[3]) /\ IsDigit(s[4])
    /\ Mod97(Rearranged(s)) = 1
    /\ <<s[3], s[4]>> = CheckDigits(<<s[1], s[2]>>, Tail0(s, 4))
=============================================================================
