---------------------------- MODULE MC_IbanSmall ----------------------------
(***************************************************************************)
(* Small-scope model of IBAN validation: EVERY text over the alphabet      *)
(* Sigma up to length MaxLen is an initial state; the validating call runs *)
(* stage by stage (one action per stage of the implementation) to Accept   *)
(* or Reject(e).  The table is a small synthetic one (VERIF_TABLE) that    *)
(* covers the structure grammar; the same texts are replayed into the real *)
(* library running on that same table (harness/checks/c01.py).             *)
(***************************************************************************)
EXTENDS RealData

\* Sigma: A, B, 5, 7, 8, a, blank, ARABIC-INDIC DIGIT ZERO (and "-" in the thorough
\* tier).  The three ASCII digits are chosen (by search) so that every synthetic
\* country has valid IBANs over Sigma.
CONSTANTS MaxLen, Sigma

VARIABLES text, pc, err
vars == <<text, pc, err>>

Texts == UNION {[1..n -> Sigma] : n \in 0..MaxLen}

Init == text \in Texts /\ pc = "chars" /\ err = ""

After(st) == CASE st = "chars" -> "length" [] st = "length" -> "format"
               [] st = "format" -> "iso" [] st = "iso" -> "accept"

Stage(st) ==
    /\ pc = st
    /\ LET e == RunStage(Table, st, Clean(text))
       IN  IF e = "" THEN pc' = After(st) /\ err' = err
                     ELSE pc' = "reject" /\ err' = e
    /\ text' = text

ChkChars  == Stage("chars")
ChkLength == Stage("length")
ChkFormat == Stage("format")
ChkIso    == Stage("iso")
Done      == pc \in {"accept", "reject"} /\ UNCHANGED vars

Next == ChkChars \/ ChkLength \/ ChkFormat \/ ChkIso \/ Done
Spec == Init /\ [][Next]_vars /\ WF_vars(ChkChars \/ ChkLength \/ ChkFormat \/ ChkIso)

\* ------------------------------------------------------------- invariants
AcceptIffValid == /\ pc = "accept" => Valid(Table, text)
                  /\ pc = "reject" => ~Valid(Table, text)
RejectNamesPresentDefect == pc = "reject" => err \in Defects(Table, text)
ValidIffNoDefect == Valid(Table, text) <=> Defects(Table, text) = {}
AcceptedCompact == pc = "accept" => CompactOK(Clean(text)) /\ ~\E i \in 1..Len(Clean(text)) : IsSpace(Clean(text)[i])
CleanIdempotent == Clean(Clean(text)) = Clean(text)
PipelineAgrees == pc \in {"accept", "reject"} =>
                     Pipeline(Table, text) = (IF pc = "accept" THEN "" ELSE err)
TypeOK == pc \in {"chars", "length", "format", "iso", "accept", "reject"}
\* white space and ASCII case never matter (C10 at specification level)
CaseSpaceBlind == Valid(Table, text) = Valid(Table, Clean(text))
=============================================================================
