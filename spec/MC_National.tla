----------------------------- MODULE MC_National -----------------------------
(***************************************************************************)
(* The 22 published national algorithms on structured BBANs (C06, C09):    *)
(* per country, six positions spread over the BBAN vary over a reduced     *)
(* value set (letters too where the format allows them), the rest is       *)
(* fixed.  Each body is examined as is, with repaired check digits, and    *)
(* with each single corruption of the repaired digits.                     *)
(***************************************************************************)
EXTENDS National, FiniteSets

CONSTANTS DigitVals,       \* e.g. {48, 57}
          FullAlphabet     \* TRUE: one letter position runs over all of 0-9A-Z (thorough tier)
LetterVals == {65, 90}

\* 0-based positions where the published format allows letters
LetterRange(cc) == CASE cc \in {FR, MC} -> 10..20 [] cc = MK -> 3..12 [] cc \in {IT, SM} -> 11..22 [] OTHER -> {}
Vary(cc) == LET L == NatLen(cc) IN {((k * (L - 1)) \div 5) : k \in 0..5}
Base(cc) == [i \in 1..NatLen(cc) |-> IF cc \in {IT, SM} /\ i = 1 THEN 88 ELSE 49 + (i % 3)]

VaryList(c) == LET L == NatLen(c) IN [k \in 1..6 |-> ((k - 1) * (L - 1)) \div 5]
\* the first varying position inside the letter range runs over the WHOLE alphabet (the
\* letter-folding tables of FR/MC, IT/SM, MK have one entry per letter)
FirstLetterPos(c) == IF \E k \in 1..6 : VaryList(c)[k] \in LetterRange(c)
                     THEN VaryList(c)[CHOOSE k \in 1..6 : VaryList(c)[k] \in LetterRange(c)
                                           /\ \A j \in 1..(k - 1) : VaryList(c)[j] \notin LetterRange(c)]
                     ELSE 0 - 1
Allowed(c, p) == IF c \in {IT, SM} /\ p = 0 THEN {}
                 ELSE IF FullAlphabet /\ p = FirstLetterPos(c) THEN (48..57) \cup (65..90)
                 ELSE IF p \in LetterRange(c) THEN DigitVals \cup LetterVals ELSE DigitVals

VARIABLES cc, body, k, variant
vars == <<cc, body, k, variant>>

Slot(c) == IF c \in {CZ, SK} THEN <<19, 20>> ELSE IF c = IS THEN <<20, 21>> ELSE NatSlot(c)
SlotChars(c) == IF c \in {IT, SM} THEN 65..90 ELSE 48..57

Init == cc \in NatCountries /\ body = Base(cc) /\ k = 1 /\ variant = <<"asis", 0, 0>>

\* fix the k-th varying position to one of the values the format allows there
Choose ==
    /\ k <= 6
    /\ LET p == VaryList(cc)[k]
       IN  \/ Allowed(cc, p) = {} /\ body' = body
           \/ \E v \in Allowed(cc, p) : body' = [body EXCEPT ![p + 1] = v]
    /\ k' = k + 1 /\ UNCHANGED <<cc, variant>>
\* then look at the body as is, repaired, and with every single corruption of the repair
Examine ==
    /\ k = 7 /\ variant = <<"asis", 0, 0>>
    /\ variant' \in {<<"fixed", 0, 0>>} \cup {<<"corrupt", p, d>> : p \in 0..1, d \in 48..57}
    /\ UNCHANGED <<cc, body, k>>
Next == Choose \/ Examine \/ (variant # <<"asis", 0, 0>> /\ UNCHANGED vars)
Spec == Init /\ [][Next]_vars

Fixed == NatFix(cc, body)
\* the BBAN this state is about
X == IF variant[1] = "asis" THEN body
     ELSE IF variant[1] = "fixed" THEN Fixed
     ELSE LET s == Slot(cc)
              p == s[1] + variant[2]
          IN  IF p >= s[2] THEN Fixed ELSE [Fixed EXCEPT ![p + 1] = IF cc \in {IT, SM} THEN 65 + (variant[3] - 48) ELSE variant[3]]

Fixable == NatOK(cc, Fixed)
\* computing and validating agree (C09): the repaired BBAN validates, unless no digit exists
ComputedDigitsValidate == cc \in NatComputing /\ NatComputable(cc, body) => NatOK(cc, Fixed)
\* ... and nothing but the computed digits validates (C06)
OnlyComputedDigitsValidate ==
    cc \in NatComputing =>
        LET s == NatSlot(cc)
        IN  \A p \in s[1]..(s[2] - 1) : \A d \in SlotChars(cc) :
                LET y == [Fixed EXCEPT ![p + 1] = d] IN (y # Fixed /\ Fixable) => ~NatOK(cc, y)
\* a single corruption of a repaired check digit is always detected
CorruptionDetected == variant[1] = "corrupt" /\ Fixable /\ X # Fixed => ~NatOK(cc, X)
RepairTouchesOnlyCheckDigits ==
    LET s == Slot(cc) IN \A i \in 1..Len(body) :
        (cc \in {CZ, SK} /\ i = 10) \/ (i - 1) \in s[1]..(s[2] - 1) \/ Fixed[i] = body[i]
=============================================================================
