------------------------------ MODULE DataCheck ------------------------------
(***************************************************************************)
(* Internal consistency of the bundled data (C17).  No state space to      *)
(* speak of: one step per country entry and per bank entry of the frozen   *)
(* registries (composed by the Load machine from the raw files), each      *)
(* judged by total predicates; every failing entry is printed.             *)
(***************************************************************************)
EXTENDS RealBanks, National

VARIABLE l
NT == Len(TableRows)
Total == NT + NB

\* ---------------------------------------------------------------- countries
Ranges(r) == {n \in 1..Len(ComponentNames) : r.pos[n] # <<0, 0>>}

CountryVerdict(r) ==
    IF ~r.wellformed THEN "structure-string-malformed"
    ELSE IF r.allfixed /\ SumHi(r.toks) # r.blen THEN "structure-does-not-describe-bban-length"
    \* "describes EXACTLY its stated BBAN length": a field of variable length ("2c" = up to two) makes the
    \* structure describe several lengths, unless the variation is empty
    ELSE IF ~r.allfixed /\ ~(SumLo(r.toks) = r.blen /\ r.blen = SumHi(r.toks))
         THEN "structure-describes-other-lengths-than-the-stated-one"
    ELSE IF r.ilen # r.blen + 4 THEN "iban-length-not-bban-length-plus-4"
    ELSE IF r.ilen > 34 THEN "iban-longer-than-34"
    ELSE IF Len(r.key) # 2 \/ ~IsUpper(r.key[1]) \/ ~IsUpper(r.key[2]) THEN "country-key-not-two-letters"
    ELSE IF \E n \in Ranges(r) : ~(0 <= r.pos[n][1] /\ r.pos[n][1] < r.pos[n][2] /\ r.pos[n][2] <= r.blen)
         THEN "position-outside-bban"
    ELSE IF \E n, m \in Ranges(r) : n # m /\ ~(r.pos[n][2] <= r.pos[m][1] \/ r.pos[m][2] <= r.pos[n][1])
         THEN "positions-overlap"
    \* national algorithms read only fields the country defines: every field the PUBLISHED
    \* algorithm needs must be defined (fields an implementation merely declares, e.g. an
    \* empty branch code of BE/ME/MK/RS/TL, are harmless and not demanded)
    ELSE IF <<r.key[1], r.key[2]>> \in NatCountries
            /\ \E n \in 1..Len(ComponentNames) :
                   ComponentNames[n] \in NatNeeds(<<r.key[1], r.key[2]>>) /\ r.pos[n] = <<0, 0>>
         THEN "national-algorithm-needs-undefined-field"
    ELSE "ok"

\* ------------------------------------------------------------------- banks
NameIndex(name) == CHOOSE n \in 1..Len(ComponentNames) : ComponentNames[n] = name

\* classes of the concatenated bank-identifying fields of a country
RECURSIVE KeyClasses(_, _)
KeyClasses(sp, names) ==
    IF names = <<>> THEN <<>>
    ELSE LET p == sp.pos[Head(names)]
         IN  SubSeq(sp.cls, p[1] + 1, p[2]) \o KeyClasses(sp, Tail(names))

BankVerdict(b) ==
    IF ~b.wellformed THEN "bank-entry-lacks-a-field"
    ELSE IF Len(b.cc) # 2 \/ <<b.cc[1], b.cc[2]>> \notin DOMAIN Table THEN "bank-names-unknown-country"
    ELSE IF b.bic # <<>> /\ ~BicValidClean(b.bic, FALSE) THEN "bank-bic-invalid"
    ELSE IF b.bic # <<>> /\ Clean(b.bic) # b.bic THEN "bank-bic-not-in-clean-form"
    ELSE IF b.code = <<>> THEN "ok"
    ELSE LET sp == Table[<<b.cc[1], b.cc[2]>>]
         IN  IF ~sp.wellformed \/ ~sp.allfixed THEN "ok"     \* reported on the country entry
             ELSE IF \E j \in 1..Len(sp.lookup) : sp.pos[sp.lookup[j]] = <<0, 0>>
                  THEN "bank-code-but-country-has-no-bank-field"
             ELSE LET kc == KeyClasses(sp, sp.lookup)
                  IN  IF Len(b.code) # Len(kc) THEN "bank-code-does-not-fit-field-width"
                      ELSE IF \E j \in 1..Len(kc) : ~InClass(b.code[j], kc[j]) \/ IsLower(b.code[j])
                           THEN "bank-code-does-not-fit-field-classes"
                      ELSE "ok"

Verdict(n) == IF n <= NT THEN CountryVerdict(TableRows[n]) ELSE BankVerdict(Banks[n - NT])

Init == l = 1
Next ==
    /\ l <= Total
    /\ LET v == Verdict(l)
       IN  IF v = "ok" THEN TRUE ELSE PrintT(<<"MISMATCH", l, v>>)
    /\ l' = l + 1
TraceSpec == Init /\ [][Next]_l
TraceConsumed == TLCGet("stats").diameter - 1 = Total
=============================================================================
