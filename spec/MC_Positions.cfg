SPECIFICATION Spec
CHECK_DEADLOCK FALSE
INVARIANT Inside
INVARIANT Disjoint
INVARIANT HeadAndBban
INVARIANT SliceLaw
