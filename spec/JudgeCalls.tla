---------------------------- MODULE JudgeCalls ----------------------------
(***************************************************************************)
(* Verdict operators for the trace validation of Ready-phase calls that are functions of their       *)
(* arguments and the frozen registry: every recorded event must be the     *)
(* outcome the specification allows.  Verdicts are total: a mismatch is    *)
(* printed with the event id and the clause that failed, and validation    *)
(* goes on with the next event.                                            *)
(***************************************************************************)
EXTENDS RealData, Bic



\* ----------------------------------------------------------------- IBAN
\* e.judge = FALSE: the text contains a character whose Unicode upper-casing
\* has an ASCII alphanumeric part; acceptance is then not judged (either
\* reading of "upper-casing" satisfies the property), only totality is.
IbanOutcome(e) ==
    LET t == e.t
        vb == e.op # "iban.is_valid" /\ e.vb
        valid == Valid(Table, t)
        D == Defects(Table, t)
    IN  IF e.out.k = "exc" /\ ~e.out.lib THEN "non-library-exception"
        \* the object never changes: asked again (validate / is_valid on the same object) it answers the same
        ELSE IF "again" \in DOMAIN e.out /\ ~e.out.again THEN "object-answers-differently-when-asked-again"
        ELSE IF ~e.judge \/ Unsettled(Table, t) THEN "ok"
        ELSE IF e.out.k = "ok"
             THEN IF e.op = "iban.is_valid"
                  THEN (IF e.out.rett # "bool" THEN "is_valid-not-bool"
                        ELSE IF e.out.ret # valid THEN
                            (IF valid THEN "rejected-but-valid" ELSE "accepted-but-invalid")
                        ELSE "ok")
                  ELSE IF ~valid THEN "accepted-but-invalid"
                  ELSE IF e.cmp /\ e.out.val # Clean(t) THEN "compact-differs"
                  ELSE IF ~CompactOK(e.out.val) THEN "compact-not-alnum-34"
                  ELSE IF e.op = "iban.validate" /\ ~e.out.ret THEN "validate-not-true"
                  ELSE "ok"
             ELSE IF e.op = "iban.is_valid" THEN "is_valid-raised"
             \* with national validation requested the verdict on the national digits is
             \* TraceNational's business; here: national validation can only reject, and an
             \* error raised for a text with ISO defects must name one of them (or the national one)
             ELSE IF vb THEN (IF valid \/ e.out.cls \in D \cup {"InvalidBBANChecksum"} THEN "ok"
                              ELSE "class-not-a-present-defect")
             ELSE IF valid THEN "rejected-but-valid"
             ELSE IF e.out.cls \notin D THEN "class-not-a-present-defect"
             ELSE "ok"

\* ------------------------------------------------------------------ BIC
BicOutcome(e) ==
    LET t == e.t
        strict == IF e.op = "bic.is_valid" THEN FALSE ELSE e.strict
        valid == BicValid(t, strict)
        D == BicDefects(t, strict)
    IN  IF e.out.k = "exc" /\ ~e.out.lib THEN "non-library-exception"
        ELSE IF "again" \in DOMAIN e.out /\ ~e.out.again THEN "object-answers-differently-when-asked-again"
        ELSE IF ~e.judge THEN "ok"
        ELSE IF e.out.k = "ok"
             THEN IF e.op = "bic.is_valid"
                  THEN (IF e.out.rett # "bool" THEN "is_valid-not-bool"
                        ELSE IF e.out.ret # valid THEN
                            (IF valid THEN "rejected-but-valid" ELSE "accepted-but-invalid")
                        ELSE "ok")
                  ELSE IF ~valid THEN "accepted-but-invalid"
                  ELSE IF e.cmp /\ e.out.val # Clean(t) THEN "compact-differs"
                  ELSE IF e.op = "bic.validate" /\ ~e.out.ret THEN "validate-not-true"
                  ELSE "ok"
             ELSE IF e.op = "bic.is_valid" THEN "is_valid-raised"
             ELSE IF valid THEN "rejected-but-valid"
             ELSE IF e.out.cls \notin D THEN "class-not-a-present-defect"
             ELSE "ok"

\* ------------------------------------------------- from_bban (C02)
FromBbanOutcome(e) ==
    LET cc == e.cc
        b == e.bban
        key == IF Len(cc) = 2 THEN <<cc[1], cc[2]>> ELSE <<>>
        fits == /\ key \in DOMAIN Table /\ IsUpper(cc[1]) /\ IsUpper(cc[2])
                /\ Table[key].consistent /\ AllIn(b, IsAlnum) /\ FitsBban(b, Table[key])
    IN  IF fits
        \* with national validation requested a rejection is the national verdict (C06 judges that)
        THEN IF e.out.k # "ok" THEN (IF e.vb /\ e.out.lib THEN "ok" ELSE "rejected-but-valid")
             ELSE IF e.out.val # FromBban(cc, b) THEN "wrong-check-digits"
             ELSE IF ~Valid(Table, e.out.val) THEN "accepted-but-invalid"
             ELSE IF DigitsVal(CheckDigitsOf(e.out.val)) \notin 2..98 THEN "check-digits-out-of-range"
             ELSE "ok"
        ELSE IF e.out.k = "ok" /\ ~e.ai /\ ~Valid(Table, e.out.val) /\ ~Unsettled(Table, e.out.val)
             THEN "accepted-but-invalid"
        \* whatever the flags: when what comes back is country code, two digits and a BBAN that fits the
        \* country's structure, the digits are the ones the standard prescribes (they were computed)
        ELSE IF e.out.k = "ok" /\ Len(e.out.val) > 4 /\ Known(Table, e.out.val)
                /\ Table[CountryKey(e.out.val)].consistent /\ AllIn(Bban(e.out.val), IsAlnum)
                /\ FitsBban(Bban(e.out.val), Table[CountryKey(e.out.val)]) /\ ~Valid(Table, e.out.val)
                /\ ~Unsettled(Table, e.out.val)
             THEN "wrong-check-digits"
             ELSE "ok"

\* ------------------------------------------------- decomposition (C11)
FirstBad(names, Bad(_)) ==
    IF \E i \in 1..Len(names) : Bad(names[i])
    THEN names[CHOOSE i \in 1..Len(names) : Bad(names[i]) /\ \A j \in 1..(i - 1) : ~Bad(names[j])]
    ELSE ""

\* further read-only attributes of an accepted IBAN: the number it denotes, the SEPA flag and lengths
\* of its country's registry entry, the ISO 3166 country it names (none for user-assigned codes like XK)
IbanInfoVerdict(s, f) ==
    LET cc == CountryKey(s)
    IN  IF f.k = "exc" THEN "attribute-raised"
        ELSE IF f.numeric # NumericText(Rearranged(s)) THEN "numeric-differs"
        ELSE IF Mod97(f.numeric) # 1 THEN "numeric-not-1-mod-97"
        ELSE IF f.sepat # "bool" \/ f.sepa # Table[cc].sepa THEN "sepa-flag-differs"
        ELSE IF f.country # (IF cc \in Iso3166 THEN cc ELSE <<>>) THEN "country-object-differs"
        ELSE IF f.spec_len # Len(s) \/ f.spec_blen # Len(s) - 4 THEN "spec-length-differs"
        ELSE "ok"

IbanPartsOutcome(e) ==
    LET s == Clean(e.t)
        o == e.out
        badc == FirstBad(ComponentNames, LAMBDA n : o.comp[n] # Component(Table, s, n))
        badb == FirstBad(ComponentNames, LAMBDA n : o.bcomp[n] # o.comp[n])
    IN  IF o.k = "exc" THEN (IF ~o.lib THEN "non-library-exception"
                            ELSE IF e.judge /\ Valid(Table, e.t) THEN "decomposition-raised" ELSE "ok")
        ELSE IF ~e.cmp THEN "ok"
        ELSE IF o.val # s \/ o.compact # s THEN "compact-differs"
        ELSE IF o.length # Len(s) \/ o.len # Len(s) THEN "length-differs"
        ELSE IF o.cc # Slice(s, 0, 2) THEN "country-code-differs"
        ELSE IF o.dd # Slice(s, 2, 4) THEN "check-digits-differ"
        ELSE IF o.bban # Tail0(s, 4) THEN "bban-differs"
        ELSE IF o.bban_cc # o.cc THEN "bban-country-differs"
        ELSE IF Len(s) >= 4 /\ o.cc \o o.dd \o o.bban # s THEN "not-lossless"
        ELSE IF badc # "" THEN "component-differs:" \o badc
        ELSE IF badb # "" THEN "bban-accessor-differs:" \o badb
        ELSE IF o.formatted # Groups4(s) THEN "formatted-differs"
        ELSE IF o.reparse_fmt # s THEN "formatted-does-not-round-trip"
        ELSE IF o.cls # "IBAN" \/ o.bban_cls # "BBAN" THEN "wrong-class"
        ELSE IF ~e.ai /\ (o.rebuilt # s \/ o.rebuilt_s # s \/ ~o.rebuilt_eq) THEN "from_bban-does-not-rebuild"
        ELSE IF "info" \in DOMAIN o /\ Valid(Table, e.t) THEN IbanInfoVerdict(s, o.info)
        ELSE "ok"

BicPartsOutcome(e) ==
    LET s == Clean(e.t)
        o == e.out
    IN  IF o.k = "exc" THEN (IF ~o.lib THEN "non-library-exception"
                            ELSE IF e.judge /\ BicValid(e.t, FALSE) THEN "decomposition-raised" ELSE "ok")
        ELSE IF ~e.cmp THEN "ok"
        ELSE IF o.val # s \/ o.compact # s THEN "compact-differs"
        ELSE IF o.length # Len(s) THEN "length-differs"
        ELSE IF o.party # BicParty(s) THEN "party-differs"
        ELSE IF o.cc # BicCountry(s) THEN "country-code-differs"
        ELSE IF o.loc # BicLocation(s) THEN "location-differs"
        ELSE IF o.branch # BicBranch(s) THEN "branch-differs"
        ELSE IF Len(s) \in {8, 11} /\ o.party \o o.cc \o o.loc \o o.branch # s THEN "not-lossless"
        ELSE IF o.formatted # BicFormatted(s) THEN "formatted-differs"
        ELSE IF Len(s) \in {8, 11} /\ o.reparse_fmt # s THEN "formatted-does-not-round-trip"
        ELSE IF Len(s) \in {8, 11} /\ o.type # BicType(s) THEN "type-differs"
        ELSE "ok"

\* --------------------------------- white space / case variants (C10)
NoSpaceNoLower(v) == \A i \in 1..Len(v) : ~IsSpace(v[i]) /\ ~IsLower(v[i])

VariantsOutcome(e) ==
    LET o == e.out
        s == Clean(e.t)
    IN  IF o.k = "exc" THEN (IF o.lib THEN "variants-raised" ELSE "non-library-exception")
        ELSE IF Clean(e.u) # s THEN "driver-error-not-a-variant"
        ELSE IF ~e.judge THEN "ok"
        ELSE IF o.t.k # o.u.k THEN "variants-judged-differently"
        ELSE IF ~o.eq THEN "variants-not-equal"
        ELSE IF ~o.hash_eq THEN "variants-hash-differently"
        ELSE IF o.t.k = "ok" /\ o.t.val # o.u.val THEN "variants-compact-differs"
        ELSE IF o.t_ai # o.u_ai THEN "variants-compact-differs"
        ELSE IF e.cmp /\ o.t_ai # s THEN "compact-differs"
        ELSE IF e.cmp /\ ~NoSpaceNoLower(o.u_ai) THEN "compact-has-space-or-lower-case"
        ELSE IF e.cmp /\ e.kind = "iban" /\ (o.t_fmt # Groups4(s) \/ o.u_fmt # Groups4(s)) THEN "formatted-differs"
        ELSE IF e.cmp /\ e.kind = "bic" /\ Len(s) >= 8 /\ (o.t_fmt # BicFormatted(s) \/ o.u_fmt # BicFormatted(s))
             THEN "formatted-differs"
        ELSE IF e.kind = "iban" /\ o.t.k # (IF Valid(Table, e.t) THEN "ok" ELSE "exc") /\ ~Unsettled(Table, e.t)
             THEN "variants-misjudged"
        ELSE IF e.kind = "bic" /\ o.t.k # (IF BicValid(e.t, FALSE) THEN "ok" ELSE "exc") THEN "variants-misjudged"
        ELSE "ok"

\* ------------- constructor / validate() / is_valid agree (C05)
ConsistencyOutcome(e) ==
    LET o == e.out
        valid == IF e.kind = "iban" THEN Valid(Table, e.t) ELSE BicValid(e.t, FALSE)
        unsettled == e.kind = "iban" /\ Unsettled(Table, e.t)
    IN  IF o.k = "exc" THEN (IF o.lib THEN "is_valid-raised" ELSE "non-library-exception")
        ELSE IF (o.new.k = "exc" /\ ~o.new.lib) \/ (o.validate.k = "exc" /\ ~o.validate.lib)
             THEN "non-library-exception"
        ELSE IF o.isvalid.k = "exc" THEN "is_valid-raised"
        ELSE IF o.isvalid.rett # "bool" THEN "is_valid-not-bool"
        ELSE IF (o.new.k = "ok") # o.isvalid.ret THEN "constructor-and-is_valid-disagree"
        ELSE IF (o.validate.k = "ok") # o.isvalid.ret THEN "validate-and-is_valid-disagree"
        ELSE IF o.new.k = "exc" /\ o.validate.k = "exc" /\ o.new.cls # o.validate.cls
             THEN "constructor-and-validate-raise-different-errors"
        ELSE IF e.judge /\ ~unsettled /\ o.isvalid.ret # valid THEN
                 (IF valid THEN "rejected-but-valid" ELSE "accepted-but-invalid")
        ELSE "ok"
=============================================================================
