------------------------------- MODULE MC_Values -------------------------------
(***************************************************************************)
(* Every pair of objects from a universe that has, for each class, equal   *)
(* texts in different spellings, unequal texts, invalid (unvalidated)      *)
(* objects and plain strings - each possibly passed through one or two     *)
(* copy operations - is observed with every operation (C16).               *)
(***************************************************************************)
EXTENDS Values

CONSTANT MaxVia

T1 == <<68,69,56,57,51,55,48,52,48,48,52,52,48,53,51,50,48,49,51,48,48,48>>     \* DE89370400440532013000
T1s == <<100,101,56,57,32,51,55,48,52,32,48,48,52,52,32,48,53,51,50,32,48,49,51,48,32,48,48>>  \* de89 3704 ... spaced, lower
T2 == <<71,66,51,51,66,85,75,66,50,48,50,48,49,53,53,53,53,53,53,53,53,53>>     \* GB33BUKB20201555555555
T3 == <<68,69,48,48,51,55,48,52,48,48,52,52,48,53,51,50,48,49,51,48,48,48>>     \* DE00... invalid
B1 == <<71,69,78,79,68,69,77,49,71,76,83>>                                      \* GENODEM1GLS
B1s == <<103,101,110,111,32,100,101,32,109,49,32,103,108,115>>                  \* geno de m1 gls
B2 == <<71,69,78,79,68,69,77,49>>                                               \* GENODEM1
N1 == <<51,55,48,52,48,48,52,52,48,53,51,50,48,49,51,48,48,48>>                 \* BBAN of T1
N2 == <<66,85,75,66,50,48,50,48,49,53,53,53,53,53,53,53,53,53>>                 \* BBAN of T2
DE == <<68, 69>>
GB == <<71, 66>>

Obj(cls, text, cc) == [cls |-> cls, text |-> text, cc |-> cc, via |-> <<>>]
Base == { Obj("IBAN", T1, <<>>), Obj("IBAN", T1s, <<>>), Obj("IBAN", T2, <<>>), Obj("IBAN", T3, <<>>),
          Obj("BIC", B1, <<>>), Obj("BIC", B1s, <<>>), Obj("BIC", B2, <<>>),
          Obj("BBAN", N1, DE), Obj("BBAN", N2, GB),
          Obj("str", T1, <<>>), Obj("str", B1, <<>>), Obj("str", N1, <<>>), Obj("str", <<90, 90>>, <<>>) }

Ops == {"cmp", "hash", "dict", "sort", "props", "container"}

VARIABLES a, b, op
vars == <<a, b, op>>

Init == a \in Base /\ b \in Base /\ op = "none"
\* pass an object through one more copy operation
CopyA == op = "none" /\ a.cls # "str" /\ Len(a.via) < MaxVia /\ \E c \in CopyOps : a' = [a EXCEPT !.via = Append(@, c)] /\ UNCHANGED <<b, op>>
CopyB == op = "none" /\ b.cls # "str" /\ Len(b.via) < MaxVia /\ \E c \in CopyOps : b' = [b EXCEPT !.via = Append(@, c)] /\ UNCHANGED <<a, op>>
Observe == op = "none" /\ op' \in Ops /\ UNCHANGED <<a, b>>
Next == CopyA \/ CopyB \/ Observe \/ (op # "none" /\ UNCHANGED vars)
Spec == Init /\ [][Next]_vars

\* --- the algebra the compact-string semantics must have
EqIsEquivalence == Eq(a, a) /\ (Eq(a, b) <=> Eq(b, a))
OrderIsTotal == (Lt(a, b) \/ Lt(b, a) \/ Eq(a, b)) /\ ~(Lt(a, b) /\ Lt(b, a)) /\ ~(Lt(a, b) /\ Eq(a, b))
CmpConsistent == LET c == Cmp(a, b) IN (c.le <=> ~c.gt) /\ (c.ge <=> ~c.lt) /\ (c.ne <=> ~c.eq)
CopiesAreTheSameValue ==
    LET origin(o) == [o EXCEPT !.via = <<>>]
    IN  Eq(a, origin(a)) /\ CountryOfObj(a) = CountryOfObj(origin(a)) /\ a.cls = origin(a).cls
SpellingDoesNotMatter == (a.cls # "str" /\ b.cls # "str" /\ Clean(a.text) = Clean(b.text)) => Eq(a, b)
=============================================================================
