------------------------------- MODULE MC_Lookup -------------------------------
(***************************************************************************)
(* Every small bank registry (C12): entries are appended one by one (the   *)
(* list registry being loaded); in every state every key - listed or not - *)
(* is queried.  The implementation-shaped lookup must give an answer the   *)
(* normative predicates allow, and the mapping must be invertible.         *)
(***************************************************************************)
EXTENDS Lookup

CONSTANT MaxEntries

X == <<68, 69>>   \* DE
Y == <<83, 73>>   \* SI
C1 == <<49>>
C2 == <<50, 50>>
B8   == <<65,65,65,65,68,69,65,65>>
B11X == <<65,65,65,65,68,69,65,65,88,88,88>>
B11a == <<65,65,65,65,68,69,65,65,65,65,66>>
B11b == <<66,66,66,66,68,69,66,66,49,50,51>>

Entry(cc, code, bic, prim) ==
    [cc |-> cc, code |-> code, bic |-> bic, primary |-> prim, name |-> "n", short |-> "s",
     algo |-> <<>>, algoname |-> "", hasalgo |-> FALSE, wellformed |-> TRUE]
Entries == {Entry(cc, code, bic, p) : cc \in {X, Y}, code \in {<<>>, C1, C2},
                                      bic \in {<<>>, B8, B11X, B11a, B11b}, p \in BOOLEAN}

VARIABLE banks
Init == banks = <<>>
Add == Len(banks) < MaxEntries /\ \E e \in Entries : banks' = Append(banks, e)
Next == Add \/ (Len(banks) = MaxEntries /\ UNCHANGED banks)
Spec == Init /\ [][Next]_banks

All == 1..Len(banks)
Keys == {<<cc, code>> : cc \in {X, Y, <<>>}, code \in {<<>>, C1, C2, <<57>>}}
M(k) == Sel(banks, All, k[1], k[2])

CandidatesAllowed == \A k \in Keys : CandidatesOK(CandidatesImpl(banks, M(k)), banks, M(k))
SelectionAllowed == \A k \in Keys :
    LET o == CandidatesImpl(banks, M(k)) IN o # <<>> => SelectOK(SelectImpl(o), o)
UnlistedIsEmpty == \A k \in Keys : (k[1] = <<>> \/ k[2] = <<>> \/ k[2] = <<57>>) => M(k) = {}
Invertible == \A k \in Keys :
    LET o == CandidatesImpl(banks, M(k))
    IN  \A j \in 1..Len(o) : k[2] \in CodesOfBic(banks, All, o[j]) /\ SelBic(banks, All, o[j]) # {}
PrimariesFirst == \A k \in Keys :
    LET o == CandidatesImpl(banks, M(k))
        np == Cardinality({i \in M(k) : banks[i].primary /\ banks[i].bic # <<>>})
    IN  \A j \in 1..Len(o) : j <= np =>
            \E i \in M(k) : banks[i].primary /\ banks[i].bic = o[j]
=============================================================================
