---------------------------- MODULE JudgeValues ----------------------------
(***************************************************************************)
(* Verdict operators for the trace validation of the value semantics of IBAN / BIC / BBAN objects    *)
(* (C16): each observation made on real objects must be the one the        *)
(* compact-string semantics of module Values gives.                        *)
(***************************************************************************)
EXTENDS Values, Json, IOUtils, TLC


ObjClause(o, x) ==
    IF x.cls # o.cls THEN "copy-changed-the-class"
    ELSE IF x.compact # Compact(o) THEN "compact-differs"
    ELSE IF o.cls # "str" /\ x.country # CountryOfObj(o) THEN "country-differs"
    ELSE IF ~x.eq_origin THEN "copy-not-equal-to-origin"
    ELSE IF x.comps # x.origin_comps THEN "copy-changed-components"
    ELSE ""

ValuesOutcome(e) ==
    LET o == e.out
        c == Cmp(e.a, e.b)
    IN  IF o.k = "exc" THEN (IF e.a.via # <<>> \/ e.b.via # <<>> THEN "copy-raised" ELSE "operation-raised")
        ELSE IF e.kind = "cmp"
             THEN (IF o.eq # c.eq THEN "eq-differs" ELSE IF o.ne # c.ne THEN "ne-differs"
                   ELSE IF o.lt # c.lt THEN "lt-differs" ELSE IF o.le # c.le THEN "le-differs"
                   ELSE IF o.gt # c.gt THEN "gt-differs" ELSE IF o.ge # c.ge THEN "ge-differs" ELSE "ok")
        ELSE IF e.kind = "hash" THEN (IF Eq(e.a, e.b) /\ ~o.same THEN "equal-objects-hash-differently" ELSE "ok")
        ELSE IF e.kind = "dict" THEN (IF o.found # Eq(e.a, e.b) THEN "dictionary-lookup-differs"
                                      ELSE IF o.in_set # Eq(e.a, e.b) THEN "set-membership-differs" ELSE "ok")
        ELSE IF e.kind = "sort"
             THEN (IF ~IsSorted(o.sorted) THEN "sorted-out-of-order"
                   ELSE IF {o.sorted[i] : i \in 1..Len(o.sorted)} # {Compact(e.a), Compact(e.b), <<90, 90>>}
                        THEN "sorted-lost-an-element" ELSE "ok")
        ELSE IF e.kind = "props"
             THEN (IF ObjClause(e.a, o.a) # "" THEN ObjClause(e.a, o.a)
                   ELSE IF ObjClause(e.b, o.b) # "" THEN ObjClause(e.b, o.b) ELSE "ok")
        ELSE IF e.kind = "container"
             THEN LET bad(k) == ObjClause(e.a, o[k].a) # "" \/ ObjClause(e.b, o[k].b) # ""
                  IN  IF bad("list") THEN "copy-in-list-changed-the-value"
                      ELSE IF bad("tuple") THEN "copy-in-tuple-changed-the-value"
                      ELSE IF bad("dict") THEN "copy-in-dict-changed-the-value"
                      ELSE IF bad("pickle") THEN "pickle-of-list-changed-the-value"
                      ELSE IF bad("shallow") THEN "shallow-copy-of-list-changed-the-value" ELSE "ok"
        ELSE IF e.kind = "xproc"
             \* pickled here after use as a dictionary key, unpickled in another interpreter
             THEN LET bad(ob, x) ==
                          IF ob.cls = "str" THEN ""
                          ELSE IF ObjClause(ob, x) # "" THEN ObjClause(ob, x)
                          ELSE IF ~x.eq_str THEN "unpickled-elsewhere-not-equal-to-its-string"
                          ELSE IF ~x.hash_same THEN "unpickled-elsewhere-hashes-unlike-its-string"
                          ELSE IF ~x.key_found \/ ~x.in_set THEN "unpickled-elsewhere-not-found-as-key"
                          ELSE ""
                  IN  IF bad(e.a, IF e.a.cls = "str" THEN <<>> ELSE o.a) # "" THEN bad(e.a, o.a)
                      ELSE IF bad(e.b, IF e.b.cls = "str" THEN <<>> ELSE o.b) # "" THEN bad(e.b, o.b) ELSE "ok"
        ELSE "unknown-kind"
=============================================================================
