SPECIFICATION Spec
CONSTANT DigitVals = {48, 57}
CONSTANT FullAlphabet = FALSE
INVARIANT ComputedDigitsValidate
INVARIANT OnlyComputedDigitsValidate
INVARIANT CorruptionDetected
INVARIANT RepairTouchesOnlyCheckDigits
