SPECIFICATION Spec
CONSTANT DigitVals = {48, 57}
INVARIANT ComputedDigitsValidate
INVARIANT OnlyComputedDigitsValidate
INVARIANT CorruptionDetected
INVARIANT RepairTouchesOnlyCheckDigits
