---------------------------- MODULE MC_CleanEdits ----------------------------
(***************************************************************************)
(* White space and ASCII case never matter (C10).  From each seed text     *)
(* every sequence of up to MaxDepth edits "insert a white-space character  *)
(* anywhere" / "lower-case one ASCII letter" is explored; in every state   *)
(* the text must clean to what the seed cleans to and be judged alike.     *)
(* The real country table (VERIF_TABLE) decides IBAN validity.             *)
(***************************************************************************)
EXTENDS RealData, Bic

CONSTANTS MaxDepth, WS

IbanSeeds == {
  <<68,69,56,57,51,55,48,52,48,48,52,52,48,53,51,50,48,49,51,48,48,48>>,     \* DE89370400440532013000 valid
  <<68,69,48,48,51,55,48,52,48,48,52,52,48,53,51,50,48,49,51,48,48,48>>,     \* DE00... wrong check digits
  <<68,69,56,57,51,55,48,52,48,48,52,52,48,53,51,50,48,49,51,48,48>>,        \* one short
  <<88,88,56,57,51,55,48,52,48,48,52,52,48,53,51,50,48,49,51,48,48,48>>,     \* unknown country
  <<71,66,51,51,66,85,75,66,50,48,50,48,49,53,53,53,53,53,53,53,53,53>>,     \* GB33BUKB20201555555555 valid
  <<71,66,51,51,66,85,75,49,50,48,50,48,49,53,53,53,53,53,53,53,53,53>> }    \* digit in a letter field
BicSeeds == {
  <<71,69,78,79,68,69,77,49,71,76,83>>,      \* GENODEM1GLS
  <<71,69,78,79,68,69,77,49>>,               \* GENODEM1
  <<71,69,78,79,68,69,77,49,71,76>>,         \* bad length
  <<71,69,78,79,88,75,77,49>> }              \* unknown country XK

VARIABLES kind, seed, cur, depth
vars == <<kind, seed, cur, depth>>

Init == /\ \/ kind = "iban" /\ seed \in IbanSeeds
           \/ kind = "bic" /\ seed \in BicSeeds
        /\ cur = seed /\ depth = 0

InsertWs ==
    /\ depth < MaxDepth
    /\ \E p \in 0..Len(cur), w \in WS :
          cur' = SubSeq(cur, 1, p) \o <<w>> \o SubSeq(cur, p + 1, Len(cur))
    /\ depth' = depth + 1 /\ UNCHANGED <<kind, seed>>

LowerOne ==
    /\ depth < MaxDepth
    /\ \E p \in 1..Len(cur) : IsUpper(cur[p]) /\ cur' = [cur EXCEPT ![p] = @ + 32]
    /\ depth' = depth + 1 /\ UNCHANGED <<kind, seed>>

Next == InsertWs \/ LowerOne \/ (depth = MaxDepth /\ UNCHANGED vars)
Spec == Init /\ [][Next]_vars

SameCleanForm == Clean(cur) = seed
JudgedAlike ==
    IF kind = "iban"
    THEN Valid(Table, cur) = Valid(Table, seed) /\ Defects(Table, cur) = Defects(Table, seed)
    ELSE \A strict \in BOOLEAN :
            BicValid(cur, strict) = BicValid(seed, strict) /\ BicDefects(cur, strict) = BicDefects(seed, strict)
CleanIdempotent == Clean(Clean(cur)) = Clean(cur)
CompactHasNoSpaceNoLower == \A i \in 1..Len(Clean(cur)) : ~IsSpace(Clean(cur)[i]) /\ ~IsLower(Clean(cur)[i])
\* groups of four separated by single blanks; parsing it again gives the compact form
FormattedShape ==
    kind = "iban" =>
      LET s == Clean(cur)
          f == Groups4(s)
      IN  /\ Clean(f) = s
          /\ Len(f) = Len(s) + (IF Len(s) = 0 THEN 0 ELSE (Len(s) - 1) \div 4)
          /\ \A i \in 1..Len(f) : (f[i] = 32) <=> (i % 5 = 0)
BicFormattedShape ==
    kind = "bic" /\ Len(seed) \in {8, 11} =>
      LET s == Clean(cur) IN Clean(BicFormatted(s)) = s
=============================================================================
