--------------------------------- MODULE Bic ---------------------------------
(***************************************************************************)
(* BIC validation after ISO 9362: party prefix (4), country (2),           *)
(* location (2), optional branch (3).                                      *)
(***************************************************************************)
EXTENDS Text, Iso3166

PrefixOK(s, strict) == \A i \in 1..4 : IF strict THEN IsUpper(s[i]) ELSE IsAlnum(s[i])

BicValidClean(s, strict) ==
    /\ Len(s) \in {8, 11}
    /\ PrefixOK(s, strict)
    /\ IsUpper(s[5]) /\ IsUpper(s[6])
    /\ \A i \in 7..Len(s) : IsAlnum(s[i])
    /\ <<s[5], s[6]>> \in Iso3166

BicValid(t, strict) == BicValidClean(Clean(t), strict)

\* positional class of BIC position i (1-based) in the given mode
BicPosOK(c, i, strict) ==
    IF i <= 4 THEN (IF strict THEN IsUpper(c) ELSE IsAlnum(c))
    ELSE IF i <= 6 THEN IsUpper(c)
    ELSE IsAlnum(c)

BicDefectsClean(s, strict) ==
    (IF Len(s) \notin {8, 11} THEN {"InvalidLength"} ELSE {})
    \* (a text that is not 8 or 11 long does not have the ISO 9362 structure either)
    \cup (IF \/ \E i \in 1..Len(s) : (i > 11 /\ ~IsAlnum(s[i])) \/ (i <= 11 /\ ~BicPosOK(s[i], i, strict))
             \/ Len(s) \notin {8, 11}
          THEN {"InvalidStructure"} ELSE {})
    \cup (IF Len(s) < 6 \/ <<s[5], s[6]>> \notin Iso3166 THEN {"InvalidCountryCode"} ELSE {})

BicDefects(t, strict) == BicDefectsClean(Clean(t), strict)

\* pipeline stages, in the order the validating call runs them
BicStageLength(s) == IF Len(s) \in {8, 11} THEN "" ELSE "InvalidLength"
BicStageStructure(s, strict) ==
    IF \A i \in 1..Len(s) : BicPosOK(s[i], i, strict) THEN "" ELSE "InvalidStructure"
BicStageCountry(s) == IF <<s[5], s[6]>> \in Iso3166 THEN "" ELSE "InvalidCountryCode"

BicPipeline(t, strict) ==
    LET s == Clean(t)
        e1 == BicStageLength(s)
    IN  IF e1 # "" THEN e1
        ELSE LET e2 == BicStageStructure(s, strict)
             IN  IF e2 # "" THEN e2 ELSE BicStageCountry(s)

\* parts
BicParty(s)    == Slice(s, 0, 4)
BicCountry(s)  == Slice(s, 4, 6)
BicLocation(s) == Slice(s, 6, 8)
BicBranch(s)   == Slice(s, 8, 11)
BicFormatted(s) ==
    BicParty(s) \o <<32>> \o BicCountry(s) \o <<32>> \o BicLocation(s)
        \o (IF BicBranch(s) = <<>> THEN <<>> ELSE <<32>> \o BicBranch(s))
BicType(s) ==
    LET c == BicLocation(s)[2]
    IN  IF c = 48 THEN "testing" ELSE IF c = 49 THEN "passive"
        ELSE IF c = 50 THEN "reverse billing" ELSE "default"
=============================================================================
