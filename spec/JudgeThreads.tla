---------------------------- MODULE JudgeThreads ----------------------------
(***************************************************************************)
(* Verdict operators for the trace validation of concurrent executions (C14): each event is one      *)
(* concurrent run of a group of calls under the deterministic scheduler:   *)
(*   init  - shared locations and their values before the run              *)
(*   log   - the accesses in the order they happened (sequence numbers are *)
(*           assigned under the scheduler's lock)                          *)
(*   outs  - what each call returned / raised;  solo - what it does alone  *)
(* The run must be a behaviour of the Threads model: a read returns the    *)
(* last value written (or the initial one), and - the property itself -    *)
(* every call gives its solo outcome.                                      *)
(***************************************************************************)
EXTENDS Naturals, Sequences, FiniteSets, TLC, Json, IOUtils


LastWrite(log, n, loc) ==
    LET ws == {i \in 1..(n - 1) : log[i].k = "W" /\ log[i].loc = loc}
    IN  IF ws = {} THEN 0 ELSE CHOOSE i \in ws : \A j \in ws : j <= i
InitVal(init, loc) == IF \E i \in 1..Len(init) : init[i][1] = loc
                      THEN init[CHOOSE i \in 1..Len(init) : init[i][1] = loc][2] ELSE "?"
MemoryOK(e) ==
    \A n \in 1..Len(e.log) :
        e.log[n].k = "R" =>
            LET w == LastWrite(e.log, n, e.log[n].loc)
            IN  e.log[n].val = (IF w = 0 THEN InitVal(e.init, e.log[n].loc) ELSE e.log[w].val)

RunOutcome(e) ==
    IF e.stuck THEN "ok"                               \* infeasible schedule: not a violation
    ELSE IF ~MemoryOK(e) THEN "read-did-not-return-last-write"
    ELSE IF \E t \in 1..Len(e.outs) : e.outs[t] # e.solo[t] THEN "call-differs-from-solo"
    ELSE "ok"
=============================================================================
