------------------------------- MODULE Generate -------------------------------
(***************************************************************************)
(* Building a BBAN / IBAN from components (C08, C09).                      *)
(*  normative : what a result must look like (GenJudge)                    *)
(*  implementation-shaped : the step machine of from_components            *)
(*      clean+pad -> split combined bank code -> three length guards ->    *)
(*      national check digits -> placement                                 *)
(* A country layout `sp` is a CountryRec (pos, blen, cls ...).             *)
(***************************************************************************)
EXTENDS Iban, National

Width(sp, name) == sp.pos[name][2] - sp.pos[name][1]
Field(sp, bban, name) == LET p == sp.pos[name] IN Slice(bban, p[1], p[2])

\* supplied texts after cleaning
Supplied(e) == [bank |-> Clean(e.bank), branch |-> Clean(e.branch), acct |-> Clean(e.acct)]

\* a bank code of combined bank-plus-branch width is split across both fields
Combined(sp, s) == Width(sp, "branch_code") > 0 /\ Len(s.bank) = Width(sp, "bank_code") + Width(sp, "branch_code")

\* error classes of the components that are longer than their field
TooLong(sp, s) ==
    (IF Len(s.bank) > Width(sp, "bank_code") /\ ~Combined(sp, s) THEN {"InvalidBankCode"} ELSE {})
    \cup (IF Len(s.branch) > Width(sp, "branch_code") THEN {"InvalidBranchCode"} ELSE {})
    \cup (IF Len(s.acct) > Width(sp, "account_code") THEN {"InvalidAccountCode"} ELSE {})

\* does BBAN b carry the supplied components, padded, at the country's positions?
CarriesClause(sp, b, s) ==
    LET Wb == Width(sp, "bank_code")
        Wr == Width(sp, "branch_code")
    IN  IF Combined(sp, s)
        THEN IF Field(sp, b, "bank_code") \o Field(sp, b, "branch_code") # s.bank THEN "bank-code-altered"
             ELSE IF s.branch # <<>> /\ Field(sp, b, "branch_code") # ZFill(s.branch, Wr)
                  THEN "supplied-branch-code-dropped"
             ELSE IF Field(sp, b, "account_code") # ZFill(s.acct, Width(sp, "account_code"))
                  THEN "account-code-altered"
             ELSE ""
        ELSE IF Field(sp, b, "bank_code") # ZFill(s.bank, Wb) THEN "bank-code-altered"
        ELSE IF Field(sp, b, "branch_code") # ZFill(s.branch, Wr) THEN "branch-code-altered"
        ELSE IF Field(sp, b, "account_code") # ZFill(s.acct, Width(sp, "account_code")) THEN "account-code-altered"
        ELSE ""

\* national validity of a generated BBAN, where the published algorithm is settled
NatClause(key, b) ==
    IF key \in NatComputing /\ Len(b) = NatLen(key) /\ AllIn(b, IsAlnum) /\ ~NatUnsettled(key, b) /\ ~NatOK(key, b)
    THEN "generated-but-nationally-invalid" ELSE ""

(***************************************************************************)
(* Implementation-shaped: from_components as a function of cleaned,        *)
(* supplied components (what the step machine of MC_Generate computes).    *)
(* `nat(b)` rewrites the national check digits (identity when none).       *)
(***************************************************************************)
GenSteps(sp, s, natfix(_)) ==
    LET Wb == Width(sp, "bank_code")
        Wr == Width(sp, "branch_code")
        Wa == Width(sp, "account_code")
        bank0 == ZFill(s.bank, Wb)
        branch0 == ZFill(s.branch, Wr)
        acct == ZFill(s.acct, Wa)
        split == Wr > 0 /\ Len(bank0) = Wb + Wr
        part == SubSeq(bank0, Wb + 1, Wb + Wr)
        conflict == split /\ s.branch # <<>> /\ branch0 # part
        bank == IF split THEN SubSeq(bank0, 1, Wb) ELSE bank0
        branch == IF split /\ ~conflict THEN part ELSE branch0
    IN  IF Len(bank) > Wb THEN [k |-> "exc", cls |-> "InvalidBankCode", b |-> <<>>]
        ELSE IF Len(branch) > Wr THEN [k |-> "exc", cls |-> "InvalidBranchCode", b |-> <<>>]
        ELSE IF Len(acct) > Wa THEN [k |-> "exc", cls |-> "InvalidAccountCode", b |-> <<>>]
        ELSE IF conflict THEN [k |-> "exc", cls |-> "InvalidBranchCode", b |-> <<>>]
        ELSE LET zeros == Repeat(48, sp.blen)
                 put(b, name, v) == LET p == sp.pos[name]
                                    IN  IF p = <<0, 0>> THEN b
                                        ELSE SubSeq(b, 1, p[1]) \o v \o SubSeq(b, p[2] + 1, Len(b))
                 b1 == put(put(put(zeros, "bank_code", bank), "branch_code", branch), "account_code", acct)
             IN  [k |-> "ok", cls |-> "", b |-> natfix(b1)]
=============================================================================
