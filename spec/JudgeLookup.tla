---------------------------- MODULE JudgeLookup ----------------------------
(***************************************************************************)
(* Verdict operators for the trace validation of bank-code <-> BIC lookups (C12) against the frozen  *)
(* bank list, and of model registries replayed into the library.           *)
(***************************************************************************)
EXTENDS RealBanks


\* one (cc, code) query answered by the library: q.cands / q.choice are
\*   [k |-> "ok", v |-> ...] or [k |-> "exc", cls |-> ..., lib |-> ...]
QueryOutcome(q, banks, idx) ==
    LET M == Sel(banks, idx, q.cc, q.code)
    IN  IF ~BicsUsable(banks, M) THEN "ok"          \* data defect: C17 reports it
        ELSE IF M = {}
        THEN IF q.cands.k # "exc" \/ q.choice.k # "exc" THEN "unlisted-pair-did-not-raise"
             ELSE IF q.cands.cls # "InvalidBankCode" \/ q.choice.cls # "InvalidBankCode"
                  THEN "unlisted-pair-raised-other-than-InvalidBankCode"
             ELSE "ok"
        ELSE IF q.cands.k = "exc" THEN "listed-pair-raised"
        ELSE IF ~CandidatesOK(q.cands.v, banks, M) THEN "candidates-differ-from-registry"
        ELSE IF q.cands.v = <<>>
             THEN (IF q.choice.k = "ok" THEN "choice-without-candidates"
                   ELSE IF ~q.choice.lib THEN "non-library-exception" ELSE "ok")
        ELSE IF q.choice.k = "exc" THEN "choice-raised-although-candidates-exist"
        ELSE IF ~SelectOK(q.choice.v, q.cands.v) THEN "wrong-choice"
        ELSE IF \E j \in 1..Len(q.inv) : ~q.inv[j].lists_code
             THEN "candidate-does-not-list-the-bank-code"
        ELSE IF \E j \in 1..Len(q.inv) : ~q.inv[j].exists THEN "candidate-does-not-exist"
        ELSE "ok"

LookupOutcome(e) ==
    IF e.out.k = "exc" THEN "probe-raised"
    ELSE QueryOutcome([cc |-> e.cc, code |-> e.code, cands |-> e.out.cands, choice |-> e.out.choice,
                       inv |-> e.out.inv], Banks, IdxOf(e.cc))

ReverseOutcome(e) ==
    LET S == SelBic(Banks, AllIdx, Clean(e.bic))     \* a BIC object holds the clean form of its text
    IN  IF e.out.k = "exc" THEN "reverse-lookup-raised"
        ELSE IF e.out.exists # (S # {}) THEN "exists-differs"
        ELSE IF ~SortedSeqOK(e.out.dom, {Banks[i].code : i \in S}) THEN "domestic-bank-codes-differ"
        ELSE IF {e.out.names[j] : j \in 1..Len(e.out.names)} # {Banks[i].name : i \in S} THEN "bank-names-differ"
        ELSE IF {e.out.shorts[j] : j \in 1..Len(e.out.shorts)} # {Banks[i].short : i \in S} THEN "short-names-differ"
        ELSE "ok"

\* the bank-identifying key of a clean IBAN text: its lookup components joined
RECURSIVE JoinComponents(_, _, _)
JoinComponents(s, names, i) ==
    IF i > Len(names) THEN <<>> ELSE Component(Table, s, names[i]) \o JoinComponents(s, names, i + 1)
BankKey(s) == JoinComponents(s, Table[CountryKey(s)].lookup, 1)

IbanBankOutcome(e) ==
    LET s == Clean(e.t)
        o == e.out
    IN  IF o.k = "exc" THEN (IF o.lib /\ ~Known(Table, s) THEN "ok" ELSE "bank-of-iban-raised")
        ELSE IF ~Known(Table, s) THEN "ok"
        ELSE LET cc == CountryOf(s)
                 M == Sel(Banks, IdxOf(cc), cc, BankKey(s))
                 cands == CandidatesImpl(Banks, M)
             IN  IF ~BicsUsable(Banks, M) THEN "ok"
                 ELSE IF M = {} THEN (IF o.bic.z /\ o.name.z /\ o.short.z /\ o.bankz THEN "ok"
                                      ELSE "unlisted-bank-not-None")
                 ELSE IF o.bankz \/ o.name.z \/ o.short.z THEN "listed-bank-reported-None"
                 ELSE IF ~\E i \in M : Banks[i].name = o.name.s /\ Banks[i].short = o.short.s
                      THEN "bank-names-not-from-the-registry-entry"
                 ELSE IF o.bank_key # BankKey(s) THEN "bank-entry-of-another-key"
                 ELSE IF o.entry_name.s # o.name.s \/ o.entry_short.s # o.short.s \/ ~o.again_same
                      THEN "bank-names-differ-from-the-bank-entry"
                 ELSE IF cands = <<>> THEN (IF o.bic.z THEN "ok" ELSE "bic-without-candidates")
                 ELSE IF o.bic.z THEN "bic-None-although-candidates-exist"
                 ELSE IF \E j \in 1..Len(cands) : Len(cands[j]) = 8
                      THEN (IF Len(o.bic.c) = 8 /\ \E j \in 1..Len(cands) : cands[j] = o.bic.c THEN "ok"
                            ELSE "wrong-choice")
                 ELSE IF ~\E j \in 1..Len(cands) : cands[j] = o.bic.c THEN "wrong-choice"
                 ELSE IF (\E j \in 1..Len(cands) : IsXXX(cands[j])) /\ ~IsXXX(o.bic.c) THEN "wrong-choice"
                 ELSE "ok"

\* a model registry replayed into the library: e.banks (BankRec list), e.out.answers
RECURSIVE FirstBadQuery(_, _, _)
FirstBadQuery(qs, banks, i) ==
    IF i > Len(qs) THEN "ok"
    ELSE LET v == QueryOutcome(qs[i], banks, 1..Len(banks))
         IN  IF v # "ok" THEN v ELSE FirstBadQuery(qs, banks, i + 1)
ModelOutcome(e) ==
    IF e.out.k = "exc" THEN "probe-raised" ELSE FirstBadQuery(e.out.answers, e.banks, 1)
=============================================================================
