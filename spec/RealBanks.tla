------------------------------ MODULE RealBanks ------------------------------
(***************************************************************************)
(* The frozen bank list of the tree under test as published by the Load    *)
(* machine (concatenated in file-name order, v2 documents expanded).       *)
(* No RECURSIVE operators / LAMBDAs here (see RealData).                   *)
(***************************************************************************)
EXTENDS RealData, Lookup

Banks == JsonDeserialize(IOEnv.VERIF_BANKS)
NB == Len(Banks)
BankCountries == {Banks[i].cc : i \in 1..NB}
IdxByCountry == TLCEval([cc \in BankCountries |-> {i \in 1..NB : Banks[i].cc = cc}])
IdxOf(cc) == IF cc \in BankCountries THEN IdxByCountry[cc] ELSE {}
AllIdx == 1..NB
=============================================================================
