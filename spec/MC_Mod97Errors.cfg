SPECIFICATION Spec
INVARIANT Detected
