SPECIFICATION Spec
CONSTANT MaxLen = 2
INVARIANT OutcomeIsFunctionOfArgs
