SPECIFICATION Spec
CONSTANT MaxEntries = 3
INVARIANT CandidatesAllowed
INVARIANT SelectionAllowed
INVARIANT UnlistedIsEmpty
INVARIANT Invertible
INVARIANT PrimariesFirst
