------------------------------- MODULE MC_Random -------------------------------
(***************************************************************************)
(* Random generation as a retry machine over an explicit stream of draws   *)
(* (C13), on a synthetic layout with every ingredient of the real one:     *)
(*   BBAN of 6:  bank 0:2 | branch 2:3 | national digit 3:4 | account 4:6  *)
(*   - a registry bank whose code is of bank width, of combined            *)
(*     bank+branch width, or no registry bank;                             *)
(*   - any subset of {bank, branch, national digit, account} pinned;       *)
(*   - a national algorithm that fails for some bodies (as Norway's does); *)
(*   - at most MaxTries attempts (100 in the library), then overflow.      *)
(* Each attempt consumes one draw: a full BBAN over Digits chosen freely.  *)
(***************************************************************************)
EXTENDS Naturals, Sequences, FiniteSets

CONSTANTS MaxTries, Digits

Names == {"bank", "branch", "nat", "acct"}
Range(n) == CASE n = "bank" -> <<1, 2>> [] n = "branch" -> <<3, 3>> [] n = "nat" -> <<4, 4>> [] n = "acct" -> <<5, 6>>
Cut(b, n) == SubSeq(b, Range(n)[1], Range(n)[2])
W(n) == Range(n)[2] - Range(n)[1] + 1

\* the synthetic national algorithm: digit = (first bank digit + last account digit) mod 3,
\* and no digit exists (the build fails) when that is 2
NatVal(bank, acct) == (bank[1] + acct[2]) % 3
NatFails(bank, acct) == NatVal(bank, acct) = 2

PinnedValue(n) == CASE n = "bank" -> <<7, 7>> [] n = "branch" -> <<8>> [] n = "nat" -> <<1>> [] n = "acct" -> <<7, 9>>
RegistryChoices == {<<>>, <<5, 5>>, <<5, 5, 6>>}      \* none / bank width / bank+branch width

VARIABLES pinned, regbank, attempt, pc, draw, comps, result
vars == <<pinned, regbank, attempt, pc, draw, comps, result>>

Init ==
    /\ pinned \in SUBSET Names /\ regbank \in RegistryChoices
    /\ attempt = 1 /\ pc = "draw" /\ draw = <<>> /\ comps = <<>> /\ result = <<>>

\* one attempt's draw: a BBAN conforming to the structure
Draw ==
    /\ pc = "draw" /\ attempt <= MaxTries
    /\ draw' \in [1..6 -> Digits]
    /\ pc' = "overlay" /\ UNCHANGED <<pinned, regbank, attempt, comps, result>>

\* pinned values win; else the registry bank's code; else what was drawn.  A combined
\* registry code also supplies the branch - unless the branch is pinned.  Then truncate.
Overlay ==
    /\ pc = "overlay"
    /\ LET base == [n \in Names |->
                      IF n \in pinned THEN PinnedValue(n)
                      ELSE IF n = "bank" /\ regbank # <<>> THEN regbank ELSE Cut(draw, n)]
           withBranch == IF Len(base["bank"]) >= W("bank") + W("branch") /\ "branch" \notin pinned
                         THEN [base EXCEPT !["branch"] = SubSeq(base["bank"], 3, 3)] ELSE base
       IN  comps' = [n \in Names |-> SubSeq(withBranch[n], 1, W(n))]
    /\ pc' = "build" /\ UNCHANGED <<pinned, regbank, attempt, draw, result>>

\* from_components: national digit computed (it may fail); a pinned national digit that
\* differs from the computed one makes the attempt fail as well
Build ==
    /\ pc = "build"
    /\ IF NatFails(comps["bank"], comps["acct"])
          \/ ("nat" \in pinned /\ <<NatVal(comps["bank"], comps["acct"])>> # PinnedValue("nat"))
       THEN /\ attempt' = attempt + 1
            /\ pc' = IF attempt + 1 > MaxTries THEN "overflow" ELSE "draw"
            /\ result' = result
       ELSE /\ result' = comps["bank"] \o comps["branch"] \o <<NatVal(comps["bank"], comps["acct"])>> \o comps["acct"]
            /\ pc' = "done" /\ attempt' = attempt
    /\ UNCHANGED <<pinned, regbank, draw, comps>>

Next == Draw \/ Overlay \/ Build \/ (pc \in {"done", "overflow"} /\ UNCHANGED vars)
Spec == Init /\ [][Next]_vars

\* ------------------------------------------------------------- properties
ResultIsValid == pc = "done" =>
    /\ Len(result) = 6 /\ \A i \in 1..6 : result[i] \in 0..9
    /\ result[4] = NatVal(Cut(result, "bank"), Cut(result, "acct")) /\ ~NatFails(Cut(result, "bank"), Cut(result, "acct"))
PinnedUnchanged == pc = "done" => \A n \in pinned : Cut(result, n) = PinnedValue(n)
RegistryBankUsed == pc = "done" /\ regbank # <<>> /\ "bank" \notin pinned =>
    /\ Cut(result, "bank") = SubSeq(regbank, 1, 2)
    /\ (Len(regbank) = 3 /\ "branch" \notin pinned => Cut(result, "branch") = SubSeq(regbank, 3, 3))
OverflowOnlyAfterAllTries == pc = "overflow" => attempt = MaxTries + 1
NeverAnInvalidObject == pc \in {"draw", "overlay", "build"} => result = <<>>
=============================================================================
