---------------------------- MODULE JudgeHistory ----------------------------
(***************************************************************************)
(* Verdict operators for the trace validation of call histories (C15).  One event = one history run  *)
(* in one process:                                                         *)
(*   steps[n] = [out |-> outcome of call n (canonical string),             *)
(*               solo |-> its outcome as first call of a fresh process,    *)
(*               acc |-> its accesses to scratch, census |-> digest of the *)
(*               registries and of previously created objects afterwards]  *)
(*   census0 = the digest right after import; full0 / full_end = complete,  *)
(*   order-sensitive digests of all registries before / after the history. *)
(***************************************************************************)
EXTENDS Naturals, Sequences, FiniteSets, TLC, Json, IOUtils


\* locations written by some call of the history: the scratch
Written(steps) == UNION {{s.acc[n][2] : n \in {k \in 1..Len(s.acc) : s.acc[k][1] = "W"}} : s \in {steps[i] : i \in 1..Len(steps)}}
\* a call may read scratch only after it has written it itself (never-written locations are frozen data)
ReadsOwnWrites(acc, scratch) ==
    \A n \in 1..Len(acc) : (acc[n][1] = "R" /\ acc[n][2] \in scratch) =>
        \E j \in 1..(n - 1) : acc[j][1] = "W" /\ acc[j][2] = acc[n][2]

FirstBadStep(steps, P(_)) == IF \E n \in 1..Len(steps) : P(steps[n])
                         THEN CHOOSE n \in 1..Len(steps) : P(steps[n]) /\ \A j \in 1..(n - 1) : ~P(steps[j]) ELSE 0

HistoryOutcome(e) ==
    LET s == e.steps
    IN  IF FirstBadStep(s, LAMBDA x : x.out # x.solo) # 0 THEN "outcome-depends-on-history"
        ELSE IF FirstBadStep(s, LAMBDA x : x.census # e.census0) # 0 THEN "call-modified-registry-or-earlier-object"
        \* an object the caller created earlier (the generator passed to a seeded draw) was used by a later call
        ELSE IF FirstBadStep(s, LAMBDA x : ~x.kept) # 0 THEN "call-modified-registry-or-earlier-object"
        ELSE IF e.full_end # e.full0 THEN "history-modified-a-registry"
        ELSE IF FirstBadStep(s, LAMBDA x : ~ReadsOwnWrites(x.acc, Written(s))) # 0 THEN "scratch-read-before-written"
        ELSE "ok"
=============================================================================
