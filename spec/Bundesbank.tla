------------------------------ MODULE Bundesbank ------------------------------
(***************************************************************************)
(* The 39 check-digit methods ("Pruefzifferberechnungsmethoden") of the    *)
(* Deutsche Bundesbank that schwifty implements, as PUBLISHED - written    *)
(* from the published descriptions (DESIGN.md Appendix A), not from        *)
(* schwifty's code.  An account number a is ten digits (code points),      *)
(* positions 1..10 from the left.                                          *)
(***************************************************************************)
EXTENDS Text

Dg(a, p) == a[p] - 48

Term(kind, d, w) ==
    LET p == d * w
    IN  CASE kind = "plain" -> p
          [] kind = "qs"    -> (p \div 10) + (p % 10)     \* digit sum of the product (p <= 90)
          [] kind = "unit"  -> p % 10

\* body lo..hi, weights applied from the right end leftwards, cyclically
RECURSIVE SumRight(_, _, _, _, _, _)
SumRight(a, lo, hi, w, kind, i) ==
    IF hi + 1 - i < lo THEN 0
    ELSE Term(kind, Dg(a, hi + 1 - i), w[((i - 1) % Len(w)) + 1]) + SumRight(a, lo, hi, w, kind, i + 1)
SR(a, lo, hi, w, kind) == SumRight(a, lo, hi, w, kind, 1)

\* a sequence of digits (values), weights from the left, cyclically
RECURSIVE SumSeqLeft(_, _, _, _)
SumSeqLeft(ds, w, kind, i) ==
    IF i > Len(ds) THEN 0
    ELSE Term(kind, ds[i], w[((i - 1) % Len(w)) + 1]) + SumSeqLeft(ds, w, kind, i + 1)

M10(s)  == (10 - (s % 10)) % 10
M11b(s) == LET x == 11 - (s % 11) IN IF x >= 10 THEN 0 ELSE x          \* 10 and 11 become 0

W2to7 == <<2, 3, 4, 5, 6, 7>>
W2to9 == <<2, 3, 4, 5, 6, 7, 8, 9>>
W2to10 == <<2, 3, 4, 5, 6, 7, 8, 9, 10>>

\* family "as 02": remainder 0 -> 0, remainder 1 -> number invalid, else 11 - r
M11aOK(a, lo, hi, w, cd) ==
    LET r == SR(a, lo, hi, w, "plain") % 11
    IN  IF r = 1 THEN FALSE ELSE Dg(a, cd) = (IF r = 0 THEN 0 ELSE 11 - r)

Num(a) == a        \* ten digits of equal length compare numerically as sequences
Lit(s) == s

ShiftLeft2(a) == SubSeq(a, 3, 10) \o <<48, 48>>

\* ------------------------------------------------------------------ methods
OK00(a) == Dg(a, 10) = M10(SR(a, 1, 9, <<2, 1>>, "qs"))
OK06(a) == Dg(a, 10) = M11b(SR(a, 1, 9, W2to7, "plain"))
OK13(a) == Dg(a, 8) = M10(SR(a, 2, 7, <<2, 1>>, "qs"))
OK63core(a) == Dg(a, 8) = M10(SR(a, 2, 7, <<2, 1>>, "qs"))

\* method 24: leading 3,4,5,6 counts as 0; a leading 9 zeroes digits 1-3; weighting
\* (1,2,3 from the left) starts at the first non-zero digit; term = (d*w + w) mod 11
Body24(a) ==
    LET ds == [i \in 1..9 |-> Dg(a, i)]
        d1 == IF ds[1] \in {3, 4, 5, 6} THEN [ds EXCEPT ![1] = 0]
              ELSE IF ds[1] = 9 THEN [ds EXCEPT ![1] = 0, ![2] = 0, ![3] = 0] ELSE ds
        first == IF \E i \in 1..9 : d1[i] # 0 THEN CHOOSE i \in 1..9 : d1[i] # 0 /\ \A j \in 1..(i - 1) : d1[j] = 0
                 ELSE 10
    IN  IF first = 10 THEN <<>> ELSE SubSeq(d1, first, 9)
RECURSIVE Sum24(_, _)
Sum24(ds, i) ==
    IF i > Len(ds) THEN 0
    ELSE LET w == ((i - 1) % 3) + 1 IN ((ds[i] * w + w) % 11) + Sum24(ds, i + 1)
OK24(a) == Dg(a, 10) = Sum24(Body24(a), 1) % 10

\* method 21: digit sums of the products, then iterate the digit sum to one digit
RECURSIVE OneDigit(_)
OneDigit(n) == IF n < 10 THEN n ELSE OneDigit((n \div 100) + ((n \div 10) % 10) + (n % 10))
OK21(a) == Dg(a, 10) = (10 - OneDigit(SR(a, 1, 9, <<2, 1>>, "qs"))) % 10

\* method 68
OK68(a) ==
    IF Dg(a, 1) = 0 /\ Dg(a, 2) = 4 THEN TRUE                        \* 400000000..499999999: not checkable
    ELSE IF Dg(a, 1) # 0                                              \* ten-digit numbers
         THEN Dg(a, 4) = 9 /\ Dg(a, 10) = M10(SR(a, 4, 9, <<2, 1>>, "qs"))
         ELSE \/ Dg(a, 10) = M10(SR(a, 1, 9, <<2, 1>>, "qs"))        \* variant 1
              \/ Dg(a, 10) = M10(SR([a EXCEPT ![3] = 48, ![4] = 48], 1, 9, <<2, 1>>, "qs"))  \* variant 2

OK76core(a) == LET r == SR(a, 2, 7, <<2, 3, 4, 5, 6, 7, 8>>, "plain") % 11 IN r # 10 /\ Dg(a, 8) = r
Rem76(a) == SR(a, 2, 7, <<2, 3, 4, 5, 6, 7, 8>>, "plain") % 11

OK91(a) ==
    \/ Dg(a, 7) = M11b(SR(a, 1, 6, W2to7, "plain"))
    \/ Dg(a, 7) = M11b(SR(a, 1, 6, <<7, 6, 5, 4, 3, 2>>, "plain"))
    \/ Dg(a, 7) = M11b(SR(a, 1, 10, <<2, 3, 4, 0, 5, 6, 7, 8, 9, 10>>, "plain"))
    \/ Dg(a, 7) = M11b(SR(a, 1, 6, <<2, 4, 8, 5, 10, 9>>, "plain"))

Implemented == {"00", "01", "02", "03", "04", "05", "06", "07", "08", "09", "10", "11", "13", "14", "15", "16",
                "17", "18", "19", "20", "21", "22", "23", "24", "25", "26", "28", "32", "33", "34", "38", "60",
                "61", "63", "68", "76", "88", "91", "99"}

SixtyThousand == <<48, 48, 48, 48, 48, 54, 48, 48, 48, 48>>            \* 0000060000
R99lo == <<48, 51, 57, 54, 48, 48, 48, 48, 48, 48>>                    \* 0396000000
R99hi == <<48, 52, 57, 57, 57, 57, 57, 57, 57, 57>>                    \* 0499999999

MethodOK(m, a) ==
    CASE m = "00" -> OK00(a)
      [] m = "01" -> Dg(a, 10) = M10(SR(a, 1, 9, <<3, 7, 1>>, "plain"))
      [] m = "02" -> M11aOK(a, 1, 9, W2to9, 10)
      [] m = "03" -> Dg(a, 10) = M10(SR(a, 1, 9, <<2, 1>>, "plain"))
      [] m = "04" -> M11aOK(a, 1, 9, W2to7, 10)
      [] m = "05" -> Dg(a, 10) = M10(SR(a, 1, 9, <<7, 3, 1>>, "plain"))
      [] m = "06" -> OK06(a)
      [] m = "07" -> M11aOK(a, 1, 9, W2to10, 10)
      [] m = "08" -> IF SeqLt(a, SixtyThousand) THEN TRUE ELSE OK00(a)
      [] m = "09" -> TRUE
      [] m = "10" -> Dg(a, 10) = M11b(SR(a, 1, 9, W2to10, "plain"))
      [] m = "11" -> LET x == 11 - (SR(a, 1, 9, W2to10, "plain") % 11)
                     IN  Dg(a, 10) = (IF x = 10 THEN 9 ELSE IF x = 11 THEN 0 ELSE x)
      [] m = "13" -> OK13(a)
      [] m = "14" -> M11aOK(a, 4, 9, W2to7, 10)
      [] m = "15" -> Dg(a, 10) = M11b(SR(a, 6, 9, <<2, 3, 4, 5>>, "plain"))
      [] m = "16" -> \/ OK06(a)
                     \/ SR(a, 1, 9, W2to7, "plain") % 11 = 1 /\ a[9] = a[10]
      [] m = "17" -> LET s == SumSeqLeft([i \in 1..6 |-> Dg(a, i + 1)], <<1, 2>>, "qs", 1)
                         r == (s + 10) % 11                              \* (s - 1) mod 11
                     IN  Dg(a, 8) = (IF r = 0 THEN 0 ELSE 10 - r)
      [] m = "18" -> Dg(a, 10) = M10(SR(a, 1, 9, <<3, 9, 7, 1>>, "plain"))
      [] m = "19" -> Dg(a, 10) = M11b(SR(a, 1, 9, <<2, 3, 4, 5, 6, 7, 8, 9, 1>>, "plain"))
      [] m = "20" -> Dg(a, 10) = M11b(SR(a, 1, 9, <<2, 3, 4, 5, 6, 7, 8, 9, 3>>, "plain"))
      [] m = "21" -> OK21(a)
      [] m = "22" -> Dg(a, 10) = M10(SR(a, 1, 9, <<3, 1>>, "unit"))
      [] m = "23" -> \/ Dg(a, 7) = M11b(SR(a, 1, 6, W2to7, "plain"))
                     \/ SR(a, 1, 6, W2to7, "plain") % 11 = 1 /\ a[6] = a[7]
      [] m = "24" -> OK24(a)
      [] m = "25" -> LET r == SR(a, 2, 9, W2to9, "plain") % 11
                     IN  IF r = 1 THEN Dg(a, 10) = 0 /\ Dg(a, 2) \in {8, 9}
                         ELSE Dg(a, 10) = (IF r = 0 THEN 0 ELSE 11 - r)
      [] m = "26" -> LET x == IF a[1] = 48 /\ a[2] = 48 THEN ShiftLeft2(a) ELSE a
                     IN  Dg(x, 8) = M11b(SR(x, 1, 7, W2to7, "plain"))
      [] m = "28" -> Dg(a, 8) = M11b(SR(a, 1, 7, <<2, 3, 4, 5, 6, 7, 8>>, "plain"))
      [] m = "32" -> Dg(a, 10) = M11b(SR(a, 4, 9, W2to7, "plain"))
      [] m = "33" -> Dg(a, 10) = M11b(SR(a, 5, 9, <<2, 3, 4, 5, 6>>, "plain"))
      [] m = "34" -> Dg(a, 8) = M11b(SR(a, 1, 7, <<2, 4, 8, 5, 10, 9, 7>>, "plain"))
      [] m = "38" -> Dg(a, 10) = M11b(SR(a, 4, 9, <<2, 4, 8, 5, 10, 9>>, "plain"))
      [] m = "60" -> Dg(a, 10) = M10(SR(a, 3, 9, <<2, 1>>, "qs"))
      [] m = "61" -> LET body == IF Dg(a, 9) = 8
                                 THEN [i \in 1..9 |-> IF i <= 7 THEN Dg(a, i) ELSE Dg(a, i + 1)]
                                 ELSE [i \in 1..7 |-> Dg(a, i)]
                     IN  Dg(a, 8) = M10(SumSeqLeft(body, <<2, 1>>, "qs", 1))
      [] m = "63" -> Dg(a, 1) = 0 /\ OK63core(a)
      [] m = "68" -> OK68(a)
      [] m = "76" -> Dg(a, 1) \in {0, 4, 6, 7, 8, 9} /\ OK76core(a)
      [] m = "88" -> IF Dg(a, 3) = 9 THEN Dg(a, 10) = M11b(SR(a, 3, 9, <<2, 3, 4, 5, 6, 7, 8>>, "plain"))
                     ELSE Dg(a, 10) = M11b(SR(a, 4, 9, W2to7, "plain"))
      [] m = "91" -> OK91(a)
      [] m = "99" -> IF SeqLe(R99lo, a) /\ SeqLe(a, R99hi) THEN TRUE ELSE OK06(a)

(***************************************************************************)
(* Inputs that are not judged: optional second passes whose exact wording  *)
(* I am not certain of, and the remainder-10 case of method 76.            *)
(***************************************************************************)
MethodUnsettled(m, a) ==
    CASE m = "13" -> ~OK13(a) /\ OK13(ShiftLeft2(a))
      [] m = "63" -> Dg(a, 1) = 0 /\ ~OK63core(a) /\ a[2] = 48 /\ a[3] = 48
                     /\ OK63core(ShiftLeft2(a))
      [] m = "76" -> \/ Rem76(a) = 10
                     \/ ~OK76core(a) /\ Dg(a, 3) \in {0, 4, 6, 7, 8, 9} /\ OK76core(ShiftLeft2(a))
      [] OTHER -> FALSE
=============================================================================
