SPECIFICATION Spec
CONSTANT DigitSet = {48, 57}
INVARIANT AtMostOneCheckDigit
INVARIANT ExactlyOneForPlainFamilies
INVARIANT NoCheck09
