-------------------------------- MODULE NatGen --------------------------------
(***************************************************************************)
(* The specification as generator: for every BBAN body the harness drew    *)
(* (VERIF_BODIES: [[cc |-> <<c1,c2>>, b |-> code points]...]) publish the   *)
(* body with the check digits the published algorithm prescribes           *)
(* (VERIF_OUT_BODIES), so that drivers can populate the accept side with   *)
(* digits computed by the reference, not by the library under test.        *)
(***************************************************************************)
EXTENDS National, Json, IOUtils, TLC

Bodies == JsonDeserialize(IOEnv.VERIF_BODIES)
VARIABLE done
Init == done = FALSE
Publish ==
    /\ ~done
    /\ JsonSerialize(IOEnv.VERIF_OUT_BODIES,
          [i \in 1..Len(Bodies) |->
              LET c == <<Bodies[i].cc[1], Bodies[i].cc[2]>>
                  b == Bodies[i].b
              IN  IF c \in NatCountries /\ Len(b) = NatLen(c)
                  THEN [b |-> NatFix(c, b), ok |-> NatOK(c, NatFix(c, b)), settled |-> ~NatUnsettled(c, NatFix(c, b))]
                  ELSE [b |-> b, ok |-> FALSE, settled |-> FALSE]])
    /\ done' = TRUE
Spec == Init /\ [][Publish]_done
=============================================================================
