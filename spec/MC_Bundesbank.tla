---------------------------- MODULE MC_Bundesbank ----------------------------
(***************************************************************************)
(* All accounts over a reduced digit set at all ten positions, for each of *)
(* the 39 methods (C07).  The states are what is replayed into the         *)
(* library; the invariants are sanity conditions on the transcription      *)
(* itself: a single-check-digit method accepts at most one value of the    *)
(* check digit for a given body, and the verdict is a function of method   *)
(* and account only (it is an operator of those two arguments).            *)
(***************************************************************************)
EXTENDS Bundesbank, FiniteSets

CONSTANT DigitSet      \* e.g. {48, 57} (quick) or {48, 51, 57}

VARIABLES m, a
vars == <<m, a>>
Init == m \in Implemented /\ a \in [1..10 -> DigitSet]
Next == UNCHANGED vars
Spec == Init /\ [][Next]_vars

CdPos(x) == IF x \in {"13", "17", "26", "28", "34", "61", "63", "76"} THEN 8
            ELSE IF x \in {"23", "91"} THEN 7 ELSE 10
SingleCd == Implemented \ {"08", "09", "16", "23", "68", "91", "99", "26"}
Accepted(x, acct) == MethodOK(x, acct) /\ ~MethodUnsettled(x, acct)
AtMostOneCheckDigit ==
    m \in SingleCd =>
        Cardinality({d \in 48..57 : Accepted(m, [a EXCEPT ![CdPos(m)] = d])}) <= 1
\* the M10 / M11b families always have exactly one acceptable check digit
ExactlyOneForPlainFamilies ==
    m \in {"00", "01", "03", "05", "06", "10", "18", "19", "20", "21", "22", "28", "32", "33", "34", "38", "60"} =>
        Cardinality({d \in 48..57 : MethodOK(m, [a EXCEPT ![CdPos(m)] = d])}) = 1
NoCheck09 == m = "09" => MethodOK(m, a)
=============================================================================
