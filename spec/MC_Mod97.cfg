SPECIFICATION Spec
INVARIANT ExactlyThePrescribed
INVARIANT PrescribedInRange
INVARIANT PrescribedLeavesOne
INVARIANT AliasesNeverAccepted
INVARIANT UniqueAccepted
INVARIANT Linear
