------------------------------ MODULE Structure ------------------------------
(***************************************************************************)
(* The SWIFT structure notation ("8!n10!n", "4!a6!n8!c", "3n" ...): a      *)
(* sequence of tokens  <count> ["!"] <class>.  "!" = exactly count          *)
(* characters, otherwise 1..count.                                          *)
(***************************************************************************)
EXTENDS Mod97

BadTok == [lo |-> 0, hi |-> 0, cls |-> 0]

RECURSIVE NumEnd(_, _)
NumEnd(s, i) == IF i <= Len(s) /\ IsDigit(s[i]) THEN NumEnd(s, i + 1) ELSE i

RECURSIVE NumVal(_, _, _)
NumVal(s, i, j) == IF i >= j THEN 0 ELSE NumVal(s, i, j - 1) * 10 + (s[j - 1] - 48)

\* Token sequence of a structure string given as code points; a malformed
\* remainder yields one BadTok and parsing stops.
RECURSIVE ParseFrom(_, _)
ParseFrom(s, i) ==
    IF i > Len(s) THEN <<>>
    ELSE LET j == NumEnd(s, i)
         IN  IF j = i \/ j > Len(s) \/ j - i > 3 THEN <<BadTok>>
             ELSE LET fixed == s[j] = 33
                      k == IF fixed THEN j + 1 ELSE j
                  IN  IF k > Len(s) \/ s[k] \notin Classes THEN <<BadTok>>
                      ELSE LET n == NumVal(s, i, j)
                           IN  <<[lo |-> IF fixed THEN n ELSE 1, hi |-> n, cls |-> s[k]]>>
                                   \o ParseFrom(s, k + 1)

Parse(s) == ParseFrom(s, 1)

WellFormed(toks) == \A i \in 1..Len(toks) : toks[i].cls # 0 /\ toks[i].hi >= 1
AllFixed(toks) == \A i \in 1..Len(toks) : toks[i].lo = toks[i].hi

RECURSIVE SumHi(_)
SumHi(toks) == IF toks = <<>> THEN 0 ELSE Head(toks).hi + SumHi(Tail(toks))
RECURSIVE SumLo(_)
SumLo(toks) == IF toks = <<>> THEN 0 ELSE Head(toks).lo + SumLo(Tail(toks))

\* For all-fixed token lists: the class of every position.
RECURSIVE ClassSeq(_)
ClassSeq(toks) ==
    IF toks = <<>> THEN <<>>
    ELSE Repeat(Head(toks).cls, Head(toks).hi) \o ClassSeq(Tail(toks))

\* General matcher (handles variable-length tokens by search).
RECURSIVE FitsFrom(_, _, _, _)
FitsFrom(s, p, toks, k) ==
    IF k > Len(toks) THEN p = Len(s) + 1
    ELSE \E n \in toks[k].lo..toks[k].hi :
            /\ p + n - 1 <= Len(s)
            /\ \A q \in p..(p + n - 1) : InClass(s[q], toks[k].cls)
            /\ FitsFrom(s, p + n, toks, k + 1)

Fits(s, toks) == FitsFrom(s, 1, toks, 1)

\* Position-wise matcher for a class sequence.
FitsClasses(s, cls) == Len(s) = Len(cls) /\ \A i \in 1..Len(s) : InClass(s[i], cls[i])
=============================================================================
