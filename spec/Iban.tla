-------------------------------- MODULE Iban --------------------------------
(***************************************************************************)
(* IBAN validation.                                                        *)
(*  - normative part: Valid / Defects (what ISO 13616 + the table say);    *)
(*  - implementation-shaped part: the validation pipeline as a machine of  *)
(*    named stages (Stage...), whose terminal state must agree with the     *)
(*    normative part (checked exhaustively by MC_IbanSmall).               *)
(* `tbl` is a country table as built by Registry!TableOf.                  *)
(***************************************************************************)
EXTENDS Registry

\* -------------------------------------------------------------- normative
HeadOK(s) == Len(s) >= 4 /\ IsUpper(s[1]) /\ IsUpper(s[2]) /\ IsDigit(s[3]) /\ IsDigit(s[4])
CountryKey(s) == IF Len(s) >= 2 THEN <<s[1], s[2]>> ELSE <<>>
Known(tbl, s) == CountryKey(s) \in DOMAIN tbl
Bban(s) == Tail0(s, 4)

\* s is a clean text
ValidClean(tbl, s) ==
    /\ HeadOK(s)
    /\ Known(tbl, s)
    /\ LET sp == tbl[CountryKey(s)]
       IN  /\ Len(s) = sp.ilen
           /\ FitsBban(Bban(s), sp)
    /\ IsoOK(s)

Valid(tbl, t) == ValidClean(tbl, Clean(t))

\* Texts on which acceptance is not judged: the country's own table entry is
\* inconsistent (C17 reports that), so "the country's length" is ambiguous.
Unsettled(tbl, t) ==
    LET s == Clean(t) IN Known(tbl, s) /\ ~Consistent(tbl[CountryKey(s)])

IbanLengths(tbl) == {tbl[k].ilen : k \in DOMAIN tbl}

\* A BBAN position whose character is outside the class the structure gives it
SomePositionOutOfClass(b, sp) ==
    IF sp.allfixed
    THEN LET cls == sp.cls
             m == IF Len(b) < Len(cls) THEN Len(b) ELSE Len(cls)
         IN  \E i \in 1..m : ~InClass(b[i], cls[i])
    ELSE ~Fits(b, sp.toks)

\* The set of defects present in a text, by error class name (liberal: every
\* class that truthfully describes the text is in the set).
DefectsClean(tbl, s) ==
    (IF ~Known(tbl, s) THEN {"InvalidCountryCode"} ELSE {})
    \cup (IF \/ Known(tbl, s) /\ Len(s) # tbl[CountryKey(s)].ilen
             \/ ~Known(tbl, s) /\ Len(s) \notin IbanLengths(tbl)
          THEN {"InvalidLength"} ELSE {})
    \* (a BBAN of another length than the structure prescribes does not match the structure
    \* either: both InvalidLength and InvalidStructure describe it truthfully)
    \cup (IF \/ ~HeadOK(s)
             \/ ~AllIn(s, IsAlnum)
             \/ Known(tbl, s) /\ SomePositionOutOfClass(Bban(s), tbl[CountryKey(s)])
             \/ Known(tbl, s) /\ Len(s) # tbl[CountryKey(s)].ilen
          THEN {"InvalidStructure"} ELSE {})
    \cup (IF ~IsoOK(s) THEN {"InvalidChecksumDigits"} ELSE {})

Defects(tbl, t) == DefectsClean(tbl, Clean(t))

\* Every accepted compact form is ASCII upper-case alphanumeric, <= 34 long
CompactOK(s) == AllIn(s, IsAlnum) /\ Len(s) <= 34

\* ------------------------------------------------ implementation-shaped
\* One operator per stage of the validating call.  Each returns "" to pass
\* control on, or the name of the error class that terminates the call.
StageChars(tbl, s)  == IF HeadOK(s) THEN "" ELSE "InvalidStructure"
StageLength(tbl, s) == IF ~Known(tbl, s) THEN "InvalidCountryCode"
                       ELSE IF Len(s) # tbl[CountryKey(s)].ilen THEN "InvalidLength" ELSE ""
StageFormat(tbl, s) == IF FitsBban(Bban(s), tbl[CountryKey(s)]) THEN "" ELSE "InvalidStructure"
StageIso(tbl, s)    == IF IsoOK(s) THEN "" ELSE "InvalidChecksumDigits"

StageNames == <<"chars", "length", "format", "iso">>
RunStage(tbl, st, s) ==
    CASE st = "chars"  -> StageChars(tbl, s)
      [] st = "length" -> StageLength(tbl, s)
      [] st = "format" -> StageFormat(tbl, s)
      [] st = "iso"    -> StageIso(tbl, s)

\* The first failing stage, or "" when all pass: the outcome of the pipeline.
RECURSIVE PipelineFrom(_, _, _)
PipelineFrom(tbl, s, i) ==
    IF i > Len(StageNames) THEN ""
    ELSE LET e == RunStage(tbl, StageNames[i], s)
         IN  IF e # "" THEN e ELSE PipelineFrom(tbl, s, i + 1)
Pipeline(tbl, t) == PipelineFrom(tbl, Clean(t), 1)

\* ----------------------------------------------------------- decomposition
CheckDigitsOf(s) == Slice(s, 2, 4)
CountryOf(s) == Slice(s, 0, 2)
Component(tbl, s, name) ==
    IF Known(tbl, s)
    THEN LET p == tbl[CountryKey(s)].pos[name] IN Slice(Bban(s), p[1], p[2])
    ELSE <<>>
FromBban(cc, bban) == cc \o CheckDigits(cc, bban) \o bban
Formatted(s) == Groups4(s)
=============================================================================
