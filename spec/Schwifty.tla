------------------------------- MODULE Schwifty -------------------------------
(***************************************************************************)
(* The library as one state machine, and the trace specification of a      *)
(* whole recorded SESSION of one interpreter:                              *)
(*                                                                         *)
(*   phase "loading": the registry files are read at import - each read    *)
(*       must be the next file of its directory in file-name order (the    *)
(*       composition itself is the Load machine's business; its frozen     *)
(*       output is what the ready phase is judged against);                *)
(*   phase "ready":  every call is a transition Call(op, args) -> outcome  *)
(*       judged by the verdict operators of the Judge modules: validation, *)
(*       decomposition, generation, random generation, lookups, national   *)
(*       validation, value semantics - in any order and mixture.           *)
(*                                                                         *)
(* Events: [op |-> "load.file", kind |-> "iban"|"bank", nc |-> name],      *)
(*         [op |-> "load.done"], then call events as in the Trace* specs.  *)
(***************************************************************************)
EXTENDS JudgeCalls, JudgeLookup, JudgeNational, JudgeGenerate, JudgeRandom, JudgeValues

Trace == JsonDeserialize(IOEnv.VERIF_TRACE)

\* the names of the registry files of the tree under test, in the specification's order
NamesOf(path) == LET fs == SortedFiles(JsonDeserialize(path).names) IN [i \in 1..Len(fs) |-> fs[i].nc]
IbanNames == NamesOf(IOEnv.VERIF_IBAN_NAMES)
BankNames == NamesOf(IOEnv.VERIF_BANK_NAMES)

VARIABLES l,        \* position in the trace
          phase,    \* "loading" or "ready"
          nIban,    \* country files read so far
          nBank     \* bank files read so far
vars == <<l, phase, nIban, nBank>>

Ev == Trace[l]
Report(v) == IF v = "ok" THEN TRUE ELSE PrintT(<<"MISMATCH", Ev.i, v>>)

Init == l = 1 /\ phase = "loading" /\ nIban = 0 /\ nBank = 0

\* one registry file is read: it must be the next one of its directory in name order
LoadFile ==
    /\ l <= Len(Trace) /\ Ev.op = "load.file"
    /\ LET names == IF Ev.kind = "iban" THEN IbanNames ELSE BankNames
           n == IF Ev.kind = "iban" THEN nIban ELSE nBank
       IN  Report(IF phase # "loading" THEN "registry-file-read-after-load-finished"
                  ELSE IF n >= Len(names) THEN "more-files-read-than-the-directory-holds"
                  ELSE IF names[n + 1] # Ev.nc THEN "file-read-out-of-name-order" ELSE "ok")
    /\ nIban' = IF Ev.kind = "iban" /\ nIban <= Len(IbanNames) THEN nIban + 1 ELSE nIban
    /\ nBank' = IF Ev.kind = "bank" /\ nBank <= Len(BankNames) THEN nBank + 1 ELSE nBank
    /\ l' = l + 1 /\ UNCHANGED phase

\* import finished: every file has been read; the registry is frozen from here on
LoadDone ==
    /\ l <= Len(Trace) /\ Ev.op = "load.done"
    /\ Report(IF nIban # Len(IbanNames) \/ nBank # Len(BankNames) THEN "registry-not-completely-loaded" ELSE "ok")
    /\ phase' = "ready" /\ l' = l + 1 /\ UNCHANGED <<nIban, nBank>>

CallVerdict(e) ==
    CASE e.op \in {"iban.new", "iban.validate"} -> (IF e.vb THEN IbanNatOutcome(e) ELSE IbanOutcome(e))
      [] e.op = "iban.is_valid" -> IbanOutcome(e)
      [] e.op \in {"bic.new", "bic.validate", "bic.is_valid"} -> BicOutcome(e)
      [] e.op = "iban.from_bban" -> FromBbanOutcome(e)
      [] e.op = "iban.parts" -> IbanPartsOutcome(e)
      [] e.op = "bic.parts" -> BicPartsOutcome(e)
      [] e.op = "variants" -> VariantsOutcome(e)
      [] e.op = "consistency" -> ConsistencyOutcome(e)
      [] e.op = "bban.nat" -> BbanNatOutcome(e)
      [] e.op = "algo.validate" -> AlgoOutcome(e)
      [] e.op = "bic.lookup" -> LookupOutcome(e)
      [] e.op = "bic.reverse" -> ReverseOutcome(e)
      [] e.op = "iban.bank" -> IbanBankOutcome(e)
      [] e.op \in {"iban.generate", "bban.from_components"} -> GenOutcome(e)
      [] e.op = "iban.rebuild" -> RebuildOutcome(e)
      [] e.op \in {"iban.random", "bban.random"} -> RandomOutcome(e)
      [] e.op = "values" -> ValuesOutcome(e)
      [] OTHER -> "unknown-op"

\* a ready-phase call: a function of its arguments and the frozen registry
Call ==
    /\ l <= Len(Trace) /\ Ev.op \notin {"load.file", "load.done"}
    /\ Report(IF phase # "ready" THEN "call-before-the-registry-was-loaded" ELSE CallVerdict(Ev))
    /\ l' = l + 1 /\ UNCHANGED <<phase, nIban, nBank>>

Next == LoadFile \/ LoadDone \/ Call
Spec == Init /\ [][Next]_vars

TypeOK == phase \in {"loading", "ready"} /\ nIban \in 0..Len(IbanNames) + 1 /\ nBank \in 0..Len(BankNames) + 1
\* once ready, always ready; files are only ever read while loading
ReadyIsStable == [][phase = "ready" => phase' = "ready"]_vars
TraceConsumed == TLCGet("stats").diameter - 1 = Len(Trace)
=============================================================================
