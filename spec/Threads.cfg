SPECIFICATION Spec
INVARIANT MemorySound
CHECK_DEADLOCK FALSE
