------------------------------- MODULE Chars -------------------------------
(***************************************************************************)
(* Characters are Unicode code points (naturals < 2^21).  Texts are        *)
(* sequences of code points.  Nothing here looks at schwifty.              *)
(***************************************************************************)
EXTENDS Naturals, Sequences, FiniteSets

\* The 29 code points Python's str.isspace() / re "\s" treat as white space.
SpaceSet == {9, 10, 11, 12, 13, 28, 29, 30, 31, 32, 133, 160, 5760}
              \cup (8192..8202) \cup {8232, 8233, 8239, 8287, 12288}

IsSpace(c) == c \in SpaceSet
IsDigit(c) == c \in 48..57            \* ASCII 0-9 only
IsUpper(c) == c \in 65..90            \* ASCII A-Z only
IsLower(c) == c \in 97..122           \* ASCII a-z only
IsAlnum(c) == IsDigit(c) \/ IsUpper(c)
IsAscii(c) == c < 128

\* ASCII upper-casing.  Non-ASCII characters are left alone; the harness
\* only *judges* texts whose non-ASCII characters are fixed points of
\* Unicode upper-casing or that can never be accepted either way.
Upper(c) == IF IsLower(c) THEN c - 32 ELSE c

\* Value of an alphanumeric in the ISO 13616 expansion: 0-9 -> 0..9, A-Z -> 10..35
AlphaVal(c) == IF IsDigit(c) THEN c - 48 ELSE c - 55

\* Character classes of the SWIFT structure notation
\*   n digits, a upper-case letters, c alphanumerics (input is already upper-cased), e blank
ClassN == 110
ClassA == 97
ClassC == 99
ClassE == 101
Classes == {ClassN, ClassA, ClassC, ClassE}

InClass(c, k) ==
    CASE k = ClassN -> IsDigit(c)
      [] k = ClassA -> IsUpper(c)
      [] k = ClassC -> IsAlnum(c) \/ IsLower(c)
      [] k = ClassE -> c = 32
      [] OTHER -> FALSE

\* Same "kind" in the sense of C03: digit/digit or letter/letter
SameKind(c, d) == (IsDigit(c) /\ IsDigit(d)) \/ (IsUpper(c) /\ IsUpper(d))
=============================================================================
