------------------------------- MODULE National -------------------------------
(***************************************************************************)
(* The national check-digit algorithms of 22 countries as PUBLISHED by the *)
(* national authorities - written from the published descriptions, on      *)
(* fixed BBAN offsets of the published national account formats, NOT from  *)
(* schwifty's code and NOT from the positions of the bundled table (so a   *)
(* position shifted in the data makes the code move, not this oracle).     *)
(* b is always a BBAN that fits the country's structure (digits; letters   *)
(* where the format allows them), as code points.  Slices are 0-based,     *)
(* half open.                                                              *)
(***************************************************************************)
EXTENDS Mod97

D(c) == c - 48                                    \* digit value of a code point
Sl(b, a, z) == SubSeq(b, a + 1, z)                \* b[a:z]

RECURSIVE WSum(_, _, _)
\* sum of w[i] * digit(s[i]) for i in 1..Len(s); w at least as long as s
WSum(s, w, i) == IF i > Len(s) THEN 0 ELSE w[i] * D(s[i]) + WSum(s, w, i + 1)
Weighted(s, w) == WSum(s, w, 1)

Rev(s) == [i \in 1..Len(s) |-> s[Len(s) + 1 - i]]

\* ------------------------------------------------------------ ISO 7064 mod 97-10
\* check digits = 98 - (body "00" mod 97), body may contain letters (A=10 .. Z=35)
Iso7064(body) == TwoDigits(98 - Mod97(body \o <<48, 48>>))
\* Mauritania, Tunisia: 97 - (body "00" mod 97)
Key97(body) == TwoDigits(97 - Mod97(body \o <<48, 48>>))
\* Belgium: body mod 97, 0 becomes 97
BelgianKey(body) == LET r == Mod97(body) IN TwoDigits(IF r = 0 THEN 97 ELSE r)

\* ------------------------------------------------------------ France / Monaco (cle RIB)
\* letters are folded to digits: A,J -> 1  B,K,S -> 2  C,L,T -> 3 ... I,R,Z -> 9
RibDigit(c) ==
    IF IsDigit(c) THEN c
    ELSE LET v == c - 65                     \* A = 0 .. Z = 25
         IN  IF v <= 8 THEN 49 + v           \* A..I -> 1..9
             ELSE IF v <= 17 THEN 49 + (v - 9)   \* J..R -> 1..9
             ELSE 50 + (v - 18)              \* S..Z -> 2..9
RibFold(s) == [i \in 1..Len(s) |-> RibDigit(s[i])]
RibKey(b) ==
    LET bank == Mod97(RibFold(Sl(b, 0, 5)))
        branch == Mod97(RibFold(Sl(b, 5, 10)))
        acct == Mod97(RibFold(Sl(b, 10, 21)))
    IN  TwoDigits(97 - ((89 * bank + 15 * branch + 3 * acct) % 97))

\* ------------------------------------------------------------ Spain (two digits)
EsDigit(s, w) == LET x == 11 - (Weighted(s, w) % 11) IN IF x = 11 THEN 0 ELSE IF x = 10 THEN 1 ELSE x
EsKey(b) == <<48 + EsDigit(Sl(b, 0, 8), <<4, 8, 5, 10, 9, 7, 3, 6>>),
              48 + EsDigit(Sl(b, 10, 20), <<1, 2, 4, 8, 5, 10, 9, 7, 3, 6>>)>>

\* ------------------------------------------------------------ Italy / San Marino (CIN)
CinOdd == <<1, 0, 5, 7, 9, 13, 15, 17, 19, 21, 2, 4, 18, 20, 11, 3, 6, 8, 12, 14, 16, 10, 22, 25, 24, 23>>
CinVal(c) == IF IsDigit(c) THEN c - 48 ELSE c - 65       \* 0..9 and A=0 .. Z=25
RECURSIVE CinSum(_, _)
CinSum(s, i) ==
    IF i > Len(s) THEN 0
    ELSE (IF i % 2 = 1 THEN CinOdd[CinVal(s[i]) + 1] ELSE CinVal(s[i])) + CinSum(s, i + 1)
Cin(b) == <<65 + (CinSum(Sl(b, 1, 23), 1) % 26)>>

\* ------------------------------------------------------------ Finland (Luhn, mod 10)
LuhnTerm(d, w) == LET p == d * w IN (p \div 10) + (p % 10)
RECURSIVE LuhnSum(_, _)
\* r: digits from the right; weights 2,1,2,1,...
LuhnSum(r, i) == IF i > Len(r) THEN 0 ELSE LuhnTerm(D(r[i]), IF i % 2 = 1 THEN 2 ELSE 1) + LuhnSum(r, i + 1)
LuhnDigit(body) == <<48 + ((10 - (LuhnSum(Rev(body), 1) % 10)) % 10)>>

\* ------------------------------------------------------------ Norway (mod 11)
NoRemainder(b) == Weighted(Sl(b, 0, 10), <<5, 4, 3, 2, 7, 6, 5, 4, 3, 2>>) % 11
NoDigitVal(b) == (11 - NoRemainder(b)) % 11            \* 10: no valid account number exists

\* ------------------------------------------------------------ Poland (sort code digit)
PlKey(b) == <<48 + ((10 - (Weighted(Sl(b, 0, 7), <<3, 9, 7, 1, 3, 9, 7>>) % 10)) % 10)>>

\* ------------------------------------------------------------ Estonia (7-3-1 from the right)
RECURSIVE W731(_, _)
W731(r, i) == IF i > Len(r) THEN 0
              ELSE (CASE i % 3 = 1 -> 7 [] i % 3 = 2 -> 3 [] OTHER -> 1) * D(r[i]) + W731(r, i + 1)
EeKey(b) == <<48 + ((10 - (W731(Rev(Sl(b, 2, 15)), 1) % 10)) % 10)>>

\* ------------------------------------------------------------ Czechia / Slovakia (two mod-11 sums)
CzOK(b) == /\ Weighted(Sl(b, 4, 10), <<10, 5, 8, 4, 2, 1>>) % 11 = 0
           /\ Weighted(Sl(b, 10, 20), <<6, 3, 7, 9, 10, 5, 8, 4, 2, 1>>) % 11 = 0

\* ------------------------------------------------------------ Iceland (kennitala digit)
IsRemainder(b) == Weighted(Sl(b, 12, 20), <<3, 2, 7, 6, 5, 4, 3, 2>>) % 11
IsOK(b) == LET x == 11 - IsRemainder(b)
           IN  x # 10 /\ D(b[21]) = (IF x = 11 THEN 0 ELSE x)

\* ============================================================== dispatch
Pair(a, z) == <<a, z>>
BA == <<66, 65>>  BE == <<66, 69>>  ES == <<69, 83>>  FR == <<70, 82>>  MC == <<77, 67>>
IT == <<73, 84>>  SM == <<83, 77>>  FI == <<70, 73>>  NO == <<78, 79>>  PL == <<80, 76>>
EE == <<69, 69>>  PT == <<80, 84>>  RS == <<82, 83>>  ME == <<77, 69>>  MK == <<77, 75>>
SI == <<83, 73>>  TL == <<84, 76>>  MR == <<77, 82>>  TN == <<84, 78>>  CZ == <<67, 90>>
SK == <<83, 75>>  IS == <<73, 83>>

NatCountries == {BA, BE, ES, FR, MC, IT, SM, FI, NO, PL, EE, PT, RS, ME, MK, SI, TL, MR, TN, CZ, SK, IS}
\* countries that keep separately computed check digits in a dedicated field
NatComputing == NatCountries \ {CZ, SK, IS}

\* published BBAN length and the slice holding the national check digits
NatLen(cc) ==
    CASE cc = BA -> 16 [] cc = BE -> 12 [] cc = ES -> 20 [] cc \in {FR, MC} -> 23 [] cc \in {IT, SM} -> 23
      [] cc = FI -> 14 [] cc = NO -> 11 [] cc = PL -> 24 [] cc = EE -> 16 [] cc = PT -> 21
      [] cc \in {RS, ME} -> 18 [] cc = MK -> 15 [] cc = SI -> 15 [] cc = TL -> 19 [] cc = MR -> 23
      [] cc = TN -> 20 [] cc \in {CZ, SK} -> 20 [] cc = IS -> 22
NatSlot(cc) ==
    CASE cc = BA -> <<14, 16>> [] cc = BE -> <<10, 12>> [] cc = ES -> <<8, 10>> [] cc \in {FR, MC} -> <<21, 23>>
      [] cc \in {IT, SM} -> <<0, 1>> [] cc = FI -> <<13, 14>> [] cc = NO -> <<10, 11>> [] cc = PL -> <<7, 8>>
      [] cc = EE -> <<15, 16>> [] cc = PT -> <<19, 21>> [] cc \in {RS, ME} -> <<16, 18>> [] cc = MK -> <<13, 15>>
      [] cc = SI -> <<13, 15>> [] cc = TL -> <<17, 19>> [] cc = MR -> <<21, 23>> [] cc = TN -> <<18, 20>>
      [] OTHER -> <<0, 0>>

\* the components (of the library's vocabulary) the published algorithm needs to be defined
NatNeeds(cc) ==
    CASE cc \in {BA, PT, SI, TN, ES, FR, MC, IT, SM, MR} -> {"bank_code", "branch_code", "account_code", "national_checksum_digits"}
      [] cc \in {BE, RS, ME, MK, TL, FI, NO} -> {"bank_code", "account_code", "national_checksum_digits"}
      [] cc = PL -> {"bank_code", "branch_code", "national_checksum_digits"}
      [] cc = EE -> {"branch_code", "account_code", "national_checksum_digits"}
      [] cc \in {CZ, SK} -> {"branch_code", "account_code"}
      [] cc = IS -> {"account_holder_id"}

\* the check digits the published algorithm prescribes for the body of b (computing countries)
NatCompute(cc, b) ==
    CASE cc = BA -> Iso7064(Sl(b, 0, 14))
      [] cc \in {ME, RS} -> Iso7064(Sl(b, 0, 16))
      [] cc = MK -> Iso7064(Sl(b, 0, 13))
      [] cc = PT -> Iso7064(Sl(b, 0, 19))
      [] cc = SI -> Iso7064(Sl(b, 0, 13))
      [] cc = TL -> Iso7064(Sl(b, 0, 17))
      [] cc = MR -> Key97(Sl(b, 0, 21))
      [] cc = TN -> Key97(Sl(b, 0, 18))
      [] cc = BE -> BelgianKey(Sl(b, 0, 10))
      [] cc \in {FR, MC} -> RibKey(b)
      [] cc = ES -> EsKey(b)
      [] cc \in {IT, SM} -> Cin(b)
      [] cc = FI -> LuhnDigit(Sl(b, 0, 13))
      [] cc = NO -> <<48 + (NoDigitVal(b) % 10)>>
      [] cc = PL -> PlKey(b)
      [] cc = EE -> EeKey(b)

\* inputs on which the published rule is silent or my knowledge of it is not certain:
\* not judged (soundness over completeness)
NatUnsettled(cc, b) ==
    \/ cc = NO /\ Sl(b, 4, 6) = <<48, 48>>           \* accounts whose 5th-6th digits are 00

NatOK(cc, b) ==
    CASE cc \in {CZ, SK} -> CzOK(b)
      [] cc = IS -> IsOK(b)
      [] cc = NO -> NoDigitVal(b) # 10 /\ D(b[11]) = NoDigitVal(b)
      [] OTHER -> LET s == NatSlot(cc) IN Sl(b, s[1], s[2]) = NatCompute(cc, b)

\* b with the prescribed digits written into the check-digit slot
NatPlace(cc, b) ==
    LET s == NatSlot(cc) IN Sl(b, 0, s[1]) \o NatCompute(cc, b) \o Sl(b, s[2], Len(b))
\* a body for which no valid check digit exists (Norway, remainder 1)
NatComputable(cc, b) == ~(cc = NO /\ NoDigitVal(b) = 10)

\* ------------------------------------------------------------------ repair
\* A BBAN made nationally valid by rewriting only its check digit(s): the prescribed
\* digits for the computing countries; for CZ/SK the last digit of prefix and of account
\* (both carry weight 1); for IS the ninth digit of the holder id.  When no digit can
\* repair it (a needed value of 10), b is returned unchanged.
Repair11(b, lo, hi, w) ==
    \* make Weighted(b[lo:hi], w) = 0 (mod 11) by changing the last digit (weight 1)
    LET body == Sl(b, lo, hi - 1)
        need == (11 - (Weighted(body, w) % 11)) % 11
    IN  IF need = 10 THEN b ELSE Sl(b, 0, hi - 1) \o <<48 + need>> \o Sl(b, hi, Len(b))

NatFix(cc, b) ==
    CASE cc \in {CZ, SK} ->
            Repair11(Repair11(b, 4, 10, <<10, 5, 8, 4, 2, 1>>), 10, 20, <<6, 3, 7, 9, 10, 5, 8, 4, 2, 1>>)
      [] cc = IS ->
            LET x == 11 - IsRemainder(b)
            IN  IF x = 10 THEN b ELSE Sl(b, 0, 20) \o <<48 + (IF x = 11 THEN 0 ELSE x)>> \o Sl(b, 21, 22)
      [] cc = NO -> IF NoDigitVal(b) = 10 THEN b ELSE NatPlace(cc, b)
      [] OTHER -> NatPlace(cc, b)
=============================================================================
