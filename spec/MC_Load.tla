-------------------------------- MODULE MC_Load --------------------------------
(***************************************************************************)
(* The load machine on every small directory (C18): a directory is a set   *)
(* of files; its listing order is arbitrary (any permutation); files are   *)
(* folded in code point order of their names.  Dictionary directories      *)
(* (deep merge) and list directories (concatenation, v2 expansion).        *)
(***************************************************************************)
EXTENDS JsonTree

\* names that exercise the order (code points of the whole NAME, not of the stem):
\*   "B.json" < "a-b.json" < "a.json" < "a10.json" < "a2.json" < "x.v2.json"      ("-" < "." < "1")
NameCp(n) == CASE n = "a.json"    -> <<97, 46, 106, 115, 111, 110>>
               [] n = "B.json"    -> <<66, 46, 106, 115, 111, 110>>
               [] n = "a10.json"  -> <<97, 49, 48, 46, 106, 115, 111, 110>>
               [] n = "a2.json"   -> <<97, 50, 46, 106, 115, 111, 110>>
               [] n = "x.v2.json" -> <<120, 46, 118, 50, 46, 106, 115, 111, 110>>
               [] n = "a-b.json"  -> <<97, 45, 98, 46, 106, 115, 111, 110>>
Names == {"a.json", "B.json", "a10.json", "a2.json", "a-b.json"}
Rank(n) == CASE n = "B.json" -> 1 [] n = "a-b.json" -> 2 [] n = "a.json" -> 3 [] n = "a10.json" -> 4
             [] n = "a2.json" -> 5 [] n = "x.v2.json" -> 6

Scalar(n) == [t |-> "i", n |-> n]
D1(k, cp, v) == [t |-> "d", k |-> <<k>>, kc |-> <<cp>>, v |-> <<v>>]
\* small documents with conflicting and disjoint keys, nested and flat
DictDocs == { D1("a", <<97>>, Scalar(1)), D1("a", <<97>>, Scalar(2)), D1("b", <<98>>, Scalar(1)),
              D1("a", <<97>>, D1("x", <<120>>, Scalar(1))), D1("a", <<97>>, D1("x", <<120>>, Scalar(2))),
              D1("a", <<97>>, D1("y", <<121>>, Scalar(1))), EmptyDict }
ListDocs == { [t |-> "l", v |-> <<>>], [t |-> "l", v |-> <<Scalar(1)>>], [t |-> "l", v |-> <<Scalar(2), Scalar(1)>>] }

CONSTANT MaxFiles

VARIABLES kind, listing, sorted, next, acc
vars == <<kind, listing, sorted, next, acc>>

File(n, d) == [name |-> n, nc |-> NameCp(n), tree |-> d]
Listings(docs) ==
    UNION { {s \in [1..Cardinality(ns) -> {File(n, d) : n \in ns, d \in docs}] :
                \A p, q \in 1..Cardinality(ns) : p # q => s[p].name # s[q].name}
            : ns \in {x \in SUBSET Names : Cardinality(x) \in 1..MaxFiles} }

Init == /\ \/ kind = "dict" /\ listing \in Listings(DictDocs)
           \/ kind = "list" /\ listing \in Listings(ListDocs)
        /\ sorted = <<>> /\ next = 0 /\ acc = EmptyDict

Sort == next = 0 /\ sorted' = SortedFiles(listing) /\ next' = 1 /\ UNCHANGED <<kind, listing, acc>>
LoadFile ==
    /\ next >= 1 /\ next <= Len(sorted)
    /\ acc' = IF kind = "dict"
              THEN (IF next = 1 THEN sorted[1].tree ELSE Merge(acc, sorted[next].tree))
              ELSE [t |-> "l", v |-> (IF next = 1 THEN <<>> ELSE acc.v) \o ChunkOf(sorted[next])]
    /\ next' = next + 1 /\ UNCHANGED <<kind, listing, sorted>>
Done == next > Len(sorted) /\ next >= 1 /\ UNCHANGED vars
Next == Sort \/ LoadFile \/ Done
Spec == Init /\ [][Next]_vars

Finished == next >= 1 /\ next > Len(sorted)
\* files are folded in the order of their names, whatever the listing order was
NameOrder == next >= 1 => \A p, q \in 1..Len(sorted) : p < q => Rank(sorted[p].name) < Rank(sorted[q].name)
SamePermutation == next >= 1 => {sorted[p] : p \in 1..Len(sorted)} = {listing[p] : p \in 1..Len(listing)}
\* the result is that of the one-shot composition operators
AgreesWithEffective == Finished =>
    IF kind = "dict" THEN TreeEq(acc, EffectiveDict(listing))
    ELSE TreeEq(acc, [t |-> "l", v |-> EffectiveList(listing)])
\* for flat conflicts the file with the greatest name wins
LastNameWins == Finished /\ kind = "dict" =>
    \A p \in 1..Len(sorted) :
        (HasKey(sorted[p].tree, "a") /\ ~IsDict(Get(sorted[p].tree, "a"))
         /\ \A q \in (p + 1)..Len(sorted) : ~HasKey(sorted[q].tree, "a"))
        => TreeEq(Get(acc, "a"), Get(sorted[p].tree, "a"))
=============================================================================
