-------------------------------- MODULE History --------------------------------
(***************************************************************************)
(* Results never depend on call history (C15).  Calls are abstracted to    *)
(* their solo access sequences over scratch locations (as in Threads);     *)
(* here they are composed SEQUENTIALLY: TLC enumerates every history of    *)
(* up to MaxLen calls over the menu and runs it over one memory.  A read   *)
(* that returns another value than it does solo means the outcome could    *)
(* depend on what ran before (scratch used as an input).                   *)
(* Input: VERIF_MENU = [init |-> <<<<loc, val>>...>>,                       *)
(*                      calls |-> << <<access...>> ... >>]                  *)
(***************************************************************************)
EXTENDS Naturals, Sequences, FiniteSets, TLC, Json, IOUtils

CONSTANT MaxLen

Menu == JsonDeserialize(IOEnv.VERIF_MENU)
Calls == Menu.calls

VARIABLES hist,     \* calls executed or executing, in order
          pos,      \* next access of the call in progress (0: idle)
          mem,      \* scratch memory: sequence of <<loc, val>>
          dep       \* TRUE once a read saw a value other than its solo value
vars == <<hist, pos, mem, dep>>

Lookup(m, loc) == IF \E i \in 1..Len(m) : m[i][1] = loc
                  THEN m[CHOOSE i \in 1..Len(m) : m[i][1] = loc][2] ELSE 0 - 1
Store(m, loc, val) == IF \E i \in 1..Len(m) : m[i][1] = loc
                      THEN [i \in 1..Len(m) |-> IF m[i][1] = loc THEN <<loc, val>> ELSE m[i]]
                      ELSE Append(m, <<loc, val>>)

Init == hist = <<>> /\ pos = 0 /\ mem = Menu.init /\ dep = FALSE

Begin(c) ==
    /\ pos = 0 /\ ~dep /\ Len(hist) < MaxLen
    /\ hist' = Append(hist, c)
    /\ pos' = IF Calls[c] = <<>> THEN 0 ELSE 1
    /\ UNCHANGED <<mem, dep>>

Access ==
    /\ pos > 0
    /\ LET c == hist[Len(hist)]
           a == Calls[c][pos]
       IN  /\ IF a.k = "W"
              THEN mem' = Store(mem, a.loc, a.val) /\ dep' = dep
              ELSE /\ mem' = mem
                   /\ dep' = (dep \/ Lookup(mem, a.loc) # a.val)
                   /\ IF Lookup(mem, a.loc) # a.val THEN PrintT(<<"HISTDEP", hist, a.loc>>) ELSE TRUE
           /\ pos' = IF pos = Len(Calls[c]) THEN 0 ELSE pos + 1
    /\ UNCHANGED hist

Next == (\E c \in 1..Len(Calls) : Begin(c)) \/ Access \/ UNCHANGED vars
Spec == Init /\ [][Next]_vars

\* every read of a scratch location is preceded, within the same call, by a write to it
ReadBeforeWriteFree ==
    \A c \in 1..Len(Calls) : \A n \in 1..Len(Calls[c]) :
        Calls[c][n].k = "R" => \E j \in 1..(n - 1) : Calls[c][j].k = "W" /\ Calls[c][j].loc = Calls[c][n].loc
OutcomeIsFunctionOfArgs == ~dep
=============================================================================
