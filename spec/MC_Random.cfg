SPECIFICATION Spec
CONSTANT MaxTries = 3
CONSTANT Digits = {1, 4}
INVARIANT ResultIsValid
INVARIANT PinnedUnchanged
INVARIANT RegistryBankUsed
INVARIANT OverflowOnlyAfterAllTries
INVARIANT NeverAnInvalidObject
