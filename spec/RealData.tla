------------------------------ MODULE RealData ------------------------------
(***************************************************************************)
(* The frozen country table of the tree under test, as published by the    *)
(* Load machine (Load!Freeze) from the raw registry files.                 *)
(* No RECURSIVE operator may be used here: TLC pre-computes (and caches)   *)
(* constant definitions only when they need none.                          *)
(***************************************************************************)
EXTENDS Iban, Json, IOUtils

TableRows == JsonDeserialize(IOEnv.VERIF_TABLE)

NameIdx(name) == CHOOSE n \in 1..Len(ComponentNames) : ComponentNames[n] = name

RowRec(r) ==
    [ blen |-> r.blen, ilen |-> r.ilen, speccp |-> r.speccp, toks |-> r.toks,
      wellformed |-> r.wellformed, allfixed |-> r.allfixed, cls |-> r.cls,
      consistent |-> r.consistent, haspos |-> r.haspos,
      pos |-> TLCEval([name \in ComponentSet |-> r.pos[NameIdx(name)]]),
      lookup |-> r.lookup,
      defaults |-> TLCEval([name \in ComponentSet |-> r.defaults[NameIdx(name)]]),
      hasdefault |-> {name \in ComponentSet : r.hasdefault[NameIdx(name)]},
      sepa |-> r.sepa ]

Table == TLCEval([key \in {TableRows[i].key : i \in 1..Len(TableRows)} |->
                    RowRec(TableRows[CHOOSE i \in 1..Len(TableRows) : TableRows[i].key = key])])
=============================================================================
