---------------------------- MODULE JudgeRegistry ----------------------------
(***************************************************************************)
(* Verdict operators for the trace validation of the load phase: what the library's loader and       *)
(* merge return must be what the specification's composition rules give.   *)
(*   merge  : merge_dicts(l, r)  = Merge(l, r), arguments left unchanged   *)
(*   load   : registry of a directory of files = EffectiveDict/List(files) *)
(*   dump   : the registries of the tree under test = what the Load        *)
(*            machine published (VERIF_TREES)                              *)
(***************************************************************************)
EXTENDS Registry, Json, IOUtils


MergeOutcome(e) ==
    IF e.out.k = "exc" THEN "merge-raised"
    ELSE IF ~TreeEq(e.out.res, Merge(e.l, e.r)) THEN "merge-result-differs"
    ELSE IF ~TreeEq(e.out.l_after, e.l) \/ ~TreeEq(e.out.r_after, e.r) THEN "merge-changed-its-arguments"
    ELSE "ok"

LoadOutcome(e) ==
    LET expected == IF e.kind = "dict" THEN EffectiveDict(e.files)
                    ELSE [t |-> "l", v |-> EffectiveList(e.files)]
    IN  IF e.out.k = "exc" THEN "load-raised"
        ELSE IF ~TreeEq(e.out.res, expected) THEN "loaded-registry-differs"
        ELSE "ok"

DumpOutcome(e) ==
    LET mine == JsonDeserialize(IOEnv.VERIF_TREES)
    IN  IF e.out.k = "exc" THEN "dump-raised"
        ELSE IF ~TreeEq(e.out.iban, mine.iban) THEN "country-table-differs"
        ELSE IF Len(e.out.bank.v) # Len(mine.bank.v) THEN "bank-list-length-differs"
        ELSE IF ~TreeEq(e.out.bank, mine.bank) THEN "bank-list-differs"
        ELSE "ok"
=============================================================================
