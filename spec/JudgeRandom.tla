---------------------------- MODULE JudgeRandom ----------------------------
(***************************************************************************)
(* Verdict operators for the trace validation of random generation (C13): whatever is drawn, the     *)
(* result is a valid IBAN (a structure-conforming BBAN) of the requested   *)
(* country that carries every pinned component unchanged, or the           *)
(* documented overflow error; registry-based draws belong to listed banks. *)
(***************************************************************************)
EXTENDS RealBanks, Generate


RECURSIVE JoinComps(_, _, _)
JoinComps(s, names, i) ==
    IF i > Len(names) THEN <<>> ELSE Component(Table, s, names[i]) \o JoinComps(s, names, i + 1)

\* A pinned value can only "appear unchanged" if it fits its field (width and character classes) of the
\* requested country; values that do not are outside the property's quantifier: what the library does
\* with them is judged only as far as "never a non-library exception, never an invalid object".
PinsFit(e, sp) ==
    \A j \in 1..Len(e.pinned) :
        LET p == sp.pos[e.pinned[j]]
        IN  /\ e.pinned[j] \in ComponentSet
            /\ sp.haspos /\ p # <<0, 0>> /\ p[2] <= Len(sp.cls)
            /\ FitsClasses(e.vals[e.pinned[j]], SubSeq(sp.cls, p[1] + 1, p[2]))

\* the reproducibility clause: the same call, equally seeded, observed twice (a second time in the same
\* process with a plain generator; in other processes under other hash seeds) - same outcome
ReproOutcome(e) ==
    IF e.first = e.second THEN "ok"
    ELSE IF e.where = "process" THEN "not-reproducible-in-process" ELSE "not-reproducible-across-processes"

RandomOutcome(e) ==
    LET o == e.out
        req == IF Len(e.country) = 2 THEN <<e.country[1], e.country[2]>> ELSE <<>>
        supported == e.country = <<>> \/ (req \in DOMAIN Table /\ Table[req].consistent /\ Table[req].allfixed)
        fit == e.pinned = <<>> \/ (req \in DOMAIN Table /\ supported /\ PinsFit(e, Table[req]))
    IN  IF o.k = "exc" /\ ~o.lib THEN "non-library-exception"
        ELSE IF ~supported THEN (IF o.k = "ok" /\ e.country # <<>> /\ req \notin DOMAIN Table
                                 THEN "drawn-for-unknown-country" ELSE "ok")
        ELSE IF o.k = "ok" /\ "untouched" \in DOMAIN o /\ ~o.untouched THEN "later-call-drew-from-the-callers-generator"
        ELSE IF o.k = "exc" THEN (IF o.cls = "GenerateRandomOverflowError" \/ ~fit THEN "ok" ELSE "raised-other-than-overflow")
        ELSE LET s == IF e.op = "iban.random" THEN o.val ELSE o.cc \o <<48, 48>> \o o.val
                 key == CountryKey(s)
             IN  IF e.op = "iban.random" /\ ~Valid(Table, o.val) THEN "random-iban-invalid"
                 ELSE IF key \notin DOMAIN Table THEN "random-bban-of-unknown-country"
                 \* (a pinned value that does not fit its field is carried into the BBAN as it is: not judged)
                 ELSE IF e.op = "bban.random" /\ fit /\ ~FitsBban(o.val, Table[key]) THEN "random-bban-does-not-fit-structure"
                 ELSE IF e.country # <<>> /\ CountryOf(s) # e.country THEN "drawn-for-another-country"
                 ELSE IF fit /\ \E j \in 1..Len(e.pinned) :
                            Component(Table, s, e.pinned[j]) # e.vals[e.pinned[j]]
                      THEN "pinned-component-changed:" \o
                           e.pinned[CHOOSE j \in 1..Len(e.pinned) : Component(Table, s, e.pinned[j]) # e.vals[e.pinned[j]]]
                 ELSE LET cc == CountryOf(s)
                          idx == IdxOf(cc)
                          sp == Table[key]
                      IN  IF e.use_registry /\ idx # {} /\ sp.haspos
                             /\ (\A i \in idx : Banks[i].code # <<>>)
                             /\ (~\E j \in 1..Len(e.pinned) : \E n \in 1..Len(sp.lookup) : sp.lookup[n] = e.pinned[j])
                             /\ Sel(Banks, idx, cc, JoinComps(s, sp.lookup, 1)) = {}
                          THEN "registry-draw-not-a-listed-bank"
                          ELSE "ok"
=============================================================================
