-------------------------------- MODULE Values --------------------------------
(***************************************************************************)
(* IBAN, BIC and BBAN objects are string values (C16): all that matters    *)
(* for equality, hashing, ordering and use as dictionary keys is the       *)
(* compact string; copies (shallow, deep, pickled) are equal objects of    *)
(* the same class with the same country.                                   *)
(* An object is described by how it is made:                               *)
(*   [cls  : "IBAN" | "BIC" | "BBAN" | "str",                               *)
(*    text : code points given to the constructor,                         *)
(*    cc   : country given to the BBAN constructor (else <<>>),            *)
(*    via  : sequence of copy operations applied afterwards]               *)
(***************************************************************************)
EXTENDS Text

CopyOps == {"copy", "deepcopy", "pickle0", "pickle2", "pickle5"}

Compact(o) == IF o.cls = "str" THEN o.text ELSE Clean(o.text)
CountryOfObj(o) ==
    CASE o.cls = "IBAN" -> Slice(Compact(o), 0, 2)
      [] o.cls = "BIC"  -> Slice(Compact(o), 4, 6)
      [] o.cls = "BBAN" -> o.cc
      [] OTHER -> <<>>

\* the six comparisons, hashing, dictionary use: those of the compact strings
Eq(a, b) == Compact(a) = Compact(b)
Lt(a, b) == SeqLt(Compact(a), Compact(b))
Cmp(a, b) == [eq |-> Eq(a, b), ne |-> ~Eq(a, b), lt |-> Lt(a, b), le |-> Lt(a, b) \/ Eq(a, b),
              gt |-> Lt(b, a), ge |-> Lt(b, a) \/ Eq(a, b)]

\* positions of a sorted arrangement: s is sorted when neighbours are in order
IsSorted(s) == \A i \in 1..(Len(s) - 1) : SeqLe(s[i], s[i + 1])
=============================================================================
