SPECIFICATION Spec
CONSTANT MaxFiles = 3
INVARIANT NameOrder
INVARIANT SamePermutation
INVARIANT AgreesWithEffective
INVARIANT LastNameWins
