---------------------------- MODULE JudgeNational ----------------------------
(***************************************************************************)
(* Verdict operators for the trace validation of national check-digit validation (C06, C07, C09):    *)
(* the library's verdict must be that of the published algorithm           *)
(* (National, Bundesbank) wherever that is settled.                        *)
(***************************************************************************)
EXTENDS RealBanks, National, Bundesbank


\* which algorithm objects the code under test registers (data read off the live dictionary
\* schwifty.checksum.algorithms): [de |-> <<method ids>>, nat |-> <<country code points>>].
\* A method / country that the code implements but this specification does not know is not
\* judged (a newly added algorithm must not raise an alarm); one that the specification knows
\* and the code has dropped is judged as "no algorithm" only for German methods (the property
\* speaks of methods "the library implements"), while the 22 countries are named by the property.
CodeAlgos == JsonDeserialize(IOEnv.VERIF_ALGOS)
CodeMethods == {CodeAlgos.de[i] : i \in 1..Len(CodeAlgos.de)}
CodeCountries == {<<CodeAlgos.nat[i][1], CodeAlgos.nat[i][2]>> : i \in 1..Len(CodeAlgos.nat)}

DE == <<68, 69>>

\* the Bundesbank method ids the registry lists for a German bank code
MethodsOf(code) == {Banks[i].algoname : i \in {j \in IdxOf(DE) : Banks[j].code = code /\ Banks[j].hasalgo}}
Listed(code) == \E j \in IdxOf(DE) : Banks[j].code = code

\* "accept" / "reject" / "unsettled" for an ISO-valid clean IBAN s under national validation
NatExpect(s) ==
    LET cc == CountryKey(s)
        b == Bban(s)
    IN  IF cc \in NatCountries
        THEN IF Len(b) # NatLen(cc) \/ NatUnsettled(cc, b) THEN "unsettled"
             ELSE IF NatOK(cc, b) THEN "accept" ELSE "reject"
        ELSE IF cc = DE
        THEN IF Len(b) # 18 THEN "unsettled"
             ELSE LET code == SubSeq(b, 1, 8)
                      acct == SubSeq(b, 9, 18)
                      ms == MethodsOf(code)
                  IN  IF ~Listed(code) \/ ms = {} THEN "accept"
                      ELSE IF Cardinality(ms) > 1 THEN "unsettled"
                      ELSE LET m == CHOOSE x \in ms : TRUE
                           IN  IF m \notin Implemented THEN (IF m \in CodeMethods THEN "unsettled" ELSE "accept")
                               ELSE IF m \notin CodeMethods THEN "accept"
                               ELSE IF MethodUnsettled(m, acct) THEN "unsettled"
                               ELSE IF MethodOK(m, acct) THEN "accept" ELSE "reject"
        ELSE IF cc \in CodeCountries THEN "unsettled"   \* an algorithm this specification does not know
        ELSE "accept"                                  \* countries without a national algorithm: unaffected

\* the event re-validates a text that the library returned from generate / random ("from" names the call)
Built(e) == "from" \in DOMAIN e /\ e.from \in {"iban.generate", "iban.random", "bban.from_components", "bban.random"}

IbanNatOutcome(e) ==
    LET s == Clean(e.t)
        valid == ValidClean(Table, s)
        x == IF valid THEN NatExpect(s) ELSE "reject"
    IN  IF e.out.k = "exc" /\ ~e.out.lib THEN "non-library-exception"
        ELSE IF ~e.vb THEN "ok"                      \* without the flag: TraceCalls judges
        ELSE IF ~e.judge \/ Unsettled(Table, e.t) THEN "ok"
        ELSE IF ~valid THEN (IF e.out.k = "ok" THEN "national-validation-accepted-an-invalid-iban" ELSE "ok")
        \* C09, first half, needs no oracle: an IBAN the library itself built or drew in a country that
        \* keeps computed check digits passes national validation (computing and validating agree)
        ELSE IF Built(e) /\ CountryKey(s) \in NatComputing /\ e.out.k = "exc" THEN "built-iban-fails-national-validation"
        ELSE IF x = "unsettled" THEN "ok"
        ELSE IF x = "accept" /\ e.out.k = "exc" THEN "rejected-but-nationally-valid"
        ELSE IF x = "reject" /\ e.out.k = "ok" THEN "accepted-but-nationally-invalid"
        ELSE "ok"

\* BBAN-level check on the BBAN of an ISO-valid IBAN: success is reported as TRUE, failure by raising
BbanNatOutcome(e) ==
    LET s == Clean(e.t)
        valid == ValidClean(Table, s)
        x == IF valid THEN NatExpect(s) ELSE "unsettled"
    IN  IF ~valid THEN "ok"          \* the property speaks of otherwise valid IBANs only
        ELSE IF e.out.k = "exc" /\ ~e.out.lib THEN "non-library-exception"
        ELSE IF x = "unsettled" THEN "ok"
        ELSE IF x = "accept" /\ e.out.k = "exc" THEN "rejected-but-nationally-valid"
        ELSE IF x = "reject" /\ e.out.k = "ok" THEN "accepted-but-nationally-invalid"
        ELSE IF x = "accept" /\ (e.out.rett # "bool" \/ ~e.out.ret) THEN "success-not-reported-as-true"
        ELSE "ok"

\* a Bundesbank method asked directly: algorithms["DE:<m>"].validate([account], "")
AlgoOutcome(e) ==
    IF e.method \notin Implemented THEN "unknown-method"
    \* account numbers are ten digits (the library pads shorter ones before it asks a method)
    ELSE IF Len(e.account) # 10 \/ ~AllIn(e.account, IsDigit) THEN "ok"
    ELSE IF MethodUnsettled(e.method, e.account) THEN "ok"
    ELSE LET want == MethodOK(e.method, e.account)
             got == e.out.k = "ok" /\ e.out.ret
         IN  IF e.out.k = "exc" /\ ~e.out.lib THEN "non-library-exception"
             ELSE IF want /\ ~got THEN "method-rejects-valid-account"
             ELSE IF ~want /\ got THEN "method-accepts-invalid-account"
             ELSE "ok"
=============================================================================
