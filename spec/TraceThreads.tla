----------------------------- MODULE TraceThreads -----------------------------
(* Trace specification: one step per recorded event, total verdicts (operators in JudgeThreads). *)
EXTENDS JudgeThreads

Trace == JsonDeserialize(IOEnv.VERIF_TRACE)
VARIABLE l

Init == l = 1
Next ==
    /\ l <= Len(Trace)
    /\ LET v == RunOutcome(Trace[l])
       IN  IF v = "ok" THEN TRUE ELSE PrintT(<<"MISMATCH", Trace[l].i, v>>)
    /\ l' = l + 1
TraceSpec == Init /\ [][Next]_l
TraceConsumed == TLCGet("stats").diameter - 1 = Len(Trace)
=============================================================================
