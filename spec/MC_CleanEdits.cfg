SPECIFICATION Spec
CONSTANT MaxDepth = 2
CONSTANT WS = {32, 9, 10, 13, 160, 12288}
INVARIANT SameCleanForm
INVARIANT JudgedAlike
INVARIANT CleanIdempotent
INVARIANT CompactHasNoSpaceNoLower
INVARIANT FormattedShape
INVARIANT BicFormattedShape
