------------------------------ MODULE MC_Generate ------------------------------
(***************************************************************************)
(* from_components as a step machine on four synthetic country layouts     *)
(* (no branch field / bank+branch+account / no bank field / with a         *)
(* national check-digit field), for EVERY triple of component strings over *)
(* Sigma up to one character longer than the field (C08).  Terminal states *)
(* must satisfy the normative predicates of module Generate.               *)
(***************************************************************************)
EXTENDS Generate

CONSTANT Sigma

Pos(bank, branch, acct, ncd) ==
    [n \in ComponentSet |->
        CASE n = "bank_code" -> bank [] n = "branch_code" -> branch [] n = "account_code" -> acct
          [] n = "national_checksum_digits" -> ncd [] OTHER -> <<0, 0>>]
Layouts == <<
    [blen |-> 4, pos |-> Pos(<<0, 2>>, <<0, 0>>, <<2, 4>>, <<0, 0>>)],
    [blen |-> 6, pos |-> Pos(<<0, 1>>, <<1, 3>>, <<3, 6>>, <<0, 0>>)],
    [blen |-> 5, pos |-> Pos(<<0, 0>>, <<0, 2>>, <<2, 5>>, <<0, 0>>)],
    [blen |-> 6, pos |-> Pos(<<0, 2>>, <<2, 3>>, <<4, 6>>, <<3, 4>>)] >>

Strings(n) == UNION {[1..m -> Sigma] : m \in 0..n}

VARIABLES lay, raw, pc, bank, branch, acct, err, bban, conflict
vars == <<lay, raw, pc, bank, branch, acct, err, bban, conflict>>

Sp == Layouts[lay]
Wb == Width(Sp, "bank_code")
Wr == Width(Sp, "branch_code")
Wa == Width(Sp, "account_code")
S == Supplied(raw)

Init ==
    /\ lay \in 1..Len(Layouts)
    /\ raw \in [bank : Strings(Width(Layouts[lay], "bank_code") + Width(Layouts[lay], "branch_code") + 1),
                branch : Strings(Width(Layouts[lay], "branch_code") + 1),
                acct : Strings(Width(Layouts[lay], "account_code") + 1)]
    /\ pc = "pad" /\ bank = <<>> /\ branch = <<>> /\ acct = <<>> /\ err = "" /\ bban = <<>> /\ conflict = FALSE

Pad ==
    /\ pc = "pad"
    /\ bank' = ZFill(S.bank, Wb) /\ branch' = ZFill(S.branch, Wr) /\ acct' = ZFill(S.acct, Wa)
    /\ pc' = "split" /\ UNCHANGED <<lay, raw, err, bban, conflict>>

\* a bank code of combined width is split; a supplied branch code that disagrees with
\* the branch part is remembered as a conflict (raised after the length guards)
Split ==
    /\ pc = "split"
    /\ IF Wr > 0 /\ Len(bank) = Wb + Wr
       THEN LET part == SubSeq(bank, Wb + 1, Wb + Wr)
            IN  /\ conflict' = (S.branch # <<>> /\ branch # part)
                /\ branch' = IF conflict' THEN branch ELSE part
                /\ bank' = SubSeq(bank, 1, Wb)
       ELSE UNCHANGED <<bank, branch, conflict>>
    /\ pc' = "guard"
    /\ UNCHANGED <<lay, raw, acct, bban, err>>

Guard ==
    /\ pc = "guard"
    /\ IF Len(bank) > Wb THEN err' = "InvalidBankCode" /\ pc' = "raised"
       ELSE IF Len(branch) > Wr THEN err' = "InvalidBranchCode" /\ pc' = "raised"
       ELSE IF Len(acct) > Wa THEN err' = "InvalidAccountCode" /\ pc' = "raised"
       ELSE IF conflict THEN err' = "InvalidBranchCode" /\ pc' = "raised"
       ELSE err' = err /\ pc' = "place"
    /\ UNCHANGED <<lay, raw, bank, branch, acct, bban, conflict>>

Put(b, name, v) == LET p == Sp.pos[name]
                   IN  IF p = <<0, 0>> THEN b ELSE SubSeq(b, 1, p[1]) \o v \o SubSeq(b, p[2] + 1, Len(b))
Place ==
    /\ pc = "place"
    /\ bban' = Put(Put(Put(Repeat(48, Sp.blen), "bank_code", bank), "branch_code", branch), "account_code", acct)
    /\ pc' = "done" /\ UNCHANGED <<lay, raw, bank, branch, acct, err, conflict>>

Next == Pad \/ Split \/ Guard \/ Place \/ (pc \in {"done", "raised"} /\ UNCHANGED vars)
Spec == Init /\ [][Next]_vars

Terminal == pc \in {"done", "raised"}
OverlongRaisesItsOwnClass == Terminal /\ TooLong(Sp, S) # {} => pc = "raised" /\ err \in TooLong(Sp, S)
NothingDroppedOrChanged == pc = "done" => CarriesClause(Sp, bban, S) = "" /\ Len(bban) = Sp.blen
RaisesOnlyForAReason == pc = "raised" =>
    \/ err \in TooLong(Sp, S)
    \/ err = "InvalidBranchCode" /\ Combined(Sp, S) /\ S.branch # <<>>
AgreesWithGenSteps == Terminal =>
    LET g == GenSteps(Sp, S, LAMBDA b : b)
    IN  IF pc = "done" THEN g.k = "ok" /\ g.b = bban ELSE g.k = "exc" /\ g.cls = err
=============================================================================
