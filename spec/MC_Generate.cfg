SPECIFICATION Spec
CONSTANT Sigma = {49, 32}
INVARIANT OverlongRaisesItsOwnClass
INVARIANT NothingDroppedOrChanged
INVARIANT RaisesOnlyForAReason
INVARIANT AgreesWithGenSteps
