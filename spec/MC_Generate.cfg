SPECIFICATION Spec
CONSTANT Sigma = {48, 49}
INVARIANT OverlongRaisesItsOwnClass
INVARIANT NothingDroppedOrChanged
INVARIANT RaisesOnlyForAReason
INVARIANT AgreesWithGenSteps
