-------------------------------- MODULE Threads --------------------------------
(***************************************************************************)
(* Concurrent calls over shared mutable state (C14).                       *)
(* A call is abstracted to its SOLO ACCESS SEQUENCE: the reads and writes  *)
(* it makes to shared locations when run alone, with the values seen.      *)
(*     access == [k |-> "R" | "W", loc |-> location id, val |-> value id]  *)
(* Code that is deterministic given its arguments and the values it reads  *)
(* returns its solo result in a concurrent run if every read returns what  *)
(* it returned solo.  TLC explores ALL interleavings of the accesses of    *)
(* the threads of a group over a common memory; a read that can return     *)
(* another value than solo is a candidate race, reported with the schedule *)
(* (which the harness then replays in the real code with a deterministic   *)
(* scheduler - only a real difference of outcome counts as a violation).   *)
(* Input: VERIF_GROUPS = [[id |-> n, init |-> [loc |-> val ...] as list of  *)
(*        <<loc, val>>, threads |-> << <<access...>>, ... >>] ...]          *)
(***************************************************************************)
EXTENDS Naturals, Sequences, FiniteSets, TLC, Json, IOUtils

Groups == JsonDeserialize(IOEnv.VERIF_GROUPS)

VARIABLES g,        \* the group (set of concurrent calls) being explored
          pc,       \* pc[t]: index of the next access of thread t
          mem,      \* memory: sequence of <<loc, val>> pairs (last write per location)
          sched,    \* the schedule so far: sequence of thread numbers (history; hidden by VIEW in big runs)
          raced     \* TRUE once some read returned a non-solo value
vars == <<g, pc, mem, sched, raced>>

Threads(gr) == 1..Len(Groups[gr].threads)
Accs(gr, t) == Groups[gr].threads[t]

Lookup(m, loc) == IF \E i \in 1..Len(m) : m[i][1] = loc
                  THEN m[CHOOSE i \in 1..Len(m) : m[i][1] = loc][2] ELSE 0 - 1
Store(m, loc, val) == IF \E i \in 1..Len(m) : m[i][1] = loc
                      THEN [i \in 1..Len(m) |-> IF m[i][1] = loc THEN <<loc, val>> ELSE m[i]]
                      ELSE Append(m, <<loc, val>>)

Init ==
    /\ g \in 1..Len(Groups)
    /\ pc = [t \in Threads(g) |-> 1]
    /\ mem = Groups[g].init
    /\ sched = <<>> /\ raced = FALSE

\* thread t performs its next access atomically
Step(t) ==
    /\ ~raced
    /\ pc[t] <= Len(Accs(g, t))
    /\ LET a == Accs(g, t)[pc[t]]
       IN  IF a.k = "W"
           THEN /\ mem' = Store(mem, a.loc, a.val)
                /\ raced' = FALSE
           ELSE /\ mem' = mem
                /\ raced' = (Lookup(mem, a.loc) # a.val)
                /\ IF Lookup(mem, a.loc) # a.val
                   THEN PrintT(<<"RACE", Groups[g].id, Append(sched, t), a.loc>>) ELSE TRUE
    /\ pc' = [pc EXCEPT ![t] = @ + 1]
    /\ sched' = Append(sched, t)
    /\ g' = g

Done == (raced \/ \A t \in Threads(g) : pc[t] > Len(Accs(g, t))) /\ UNCHANGED vars
Next == (\E t \in Threads(g) : Step(t)) \/ Done
Spec == Init /\ [][Next]_vars

\* The property itself, as an invariant (used in the self-test and when a
\* single group is examined): every read returns its solo value.
ReadsAsSolo == ~raced
\* memory only ever holds values some thread wrote (or the initial ones)
MemorySound == \A i \in 1..Len(mem) :
    \/ \E j \in 1..Len(Groups[g].init) : Groups[g].init[j] = mem[i]
    \/ \E t \in Threads(g) : \E n \in 1..Len(Accs(g, t)) :
          Accs(g, t)[n].k = "W" /\ Accs(g, t)[n].loc = mem[i][1] /\ Accs(g, t)[n].val = mem[i][2]
Complete == \A t \in Threads(g) : pc[t] > Len(Accs(g, t))
=============================================================================
