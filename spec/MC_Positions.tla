----------------------------- MODULE MC_Positions -----------------------------
(***************************************************************************)
(* Decomposition is well defined on the real table (C11, shared with C17): *)
(* one state per country of the frozen table; in every state the           *)
(* component ranges lie inside the BBAN and are pairwise disjoint, so the  *)
(* field slices are lossless and never overlap.  A violation here is a     *)
(* data defect (reported by C17), it makes C11 unjudgeable for that row.   *)
(***************************************************************************)
EXTENDS RealData

VARIABLE i
Init == i = 1
Next == i < Len(TableRows) /\ i' = i + 1
Spec == Init /\ [][Next]_i

Row == TableRows[i]
Ranges == {Row.pos[n] : n \in 1..Len(ComponentNames)} \ {<<0, 0>>}
Inside == \A r \in Ranges : 0 <= r[1] /\ r[1] < r[2] /\ r[2] <= Row.blen
Disjoint == \A n, m \in 1..Len(ComponentNames) :
               LET r == Row.pos[n]
                   q == Row.pos[m]
               IN  n # m /\ r # <<0, 0>> /\ q # <<0, 0>> => (r[2] <= q[1] \/ q[2] <= r[1])
HeadAndBban == Row.ilen = Row.blen + 4
\* Slice semantics: a range outside the text yields the empty text
SliceLaw == \A a \in 0..3, b \in 0..4 :
               LET s == <<65, 66, 67>> IN
               Slice(s, a, b) = IF a < 3 /\ b <= 3 THEN PySlice(s, a, b) ELSE <<>>
=============================================================================
