SPECIFICATION Spec
CONSTANT N = 2
CONSTANT Reduced = FALSE
INVARIANT LaterWinsAtEveryPath
INVARIANT PairLaw
INVARIANT OverlayLocal
INVARIANT Associative
INVARIANT IdempotentRight
INVARIANT EmptyIsNeutral
