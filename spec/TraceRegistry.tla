---------------------------- MODULE TraceRegistry ----------------------------
(* Trace specification: one step per recorded event, total verdicts (operators in JudgeRegistry). *)
EXTENDS JudgeRegistry

Trace == JsonDeserialize(IOEnv.VERIF_TRACE)
VARIABLE l

Verdict(e) ==
    CASE e.op = "merge" -> MergeOutcome(e)
      [] e.op = "load" -> LoadOutcome(e)
      [] e.op = "registry.dump" -> DumpOutcome(e)
      [] OTHER -> "unknown-op"

Init == l = 1
Next ==
    /\ l <= Len(Trace)
    /\ LET v == Verdict(Trace[l])
       IN  IF v = "ok" THEN TRUE ELSE PrintT(<<"MISMATCH", Trace[l].i, v>>)
    /\ l' = l + 1
TraceSpec == Init /\ [][Next]_l
TraceConsumed == TLCGet("stats").diameter - 1 = Len(Trace)
=============================================================================
