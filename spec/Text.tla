-------------------------------- MODULE Text --------------------------------
(***************************************************************************)
(* Text operations the value objects are built from.                       *)
(***************************************************************************)
EXTENDS Chars

Map(s, Op(_)) == [i \in 1..Len(s) |-> Op(s[i])]

\* The normal form of every input: white space removed, ASCII upper-cased.
Clean(t) == Map(SelectSeq(t, LAMBDA c : ~IsSpace(c)), Upper)

AllIn(s, P(_)) == \A i \in 1..Len(s) : P(s[i])

\* Python slicing s[a:b] with 0 <= a, b (0-based, half open), clamped.
PySlice(s, a, b) ==
    LET hi == IF b > Len(s) THEN Len(s) ELSE b
    IN  IF a >= hi THEN <<>> ELSE SubSeq(s, a + 1, hi)

\* Component slice as published: the BBAN substring [a, b) when it lies
\* inside the text, otherwise the empty text ("no such field").
Slice(s, a, b) == IF a < Len(s) /\ b <= Len(s) THEN PySlice(s, a, b) ELSE <<>>

Tail0(s, a) == IF a < Len(s) THEN SubSeq(s, a + 1, Len(s)) ELSE <<>>

Repeat(c, n) == [i \in 1..n |-> c]

\* Left-pad with "0" to width w; never shortens.
ZFill(s, w) == IF Len(s) >= w THEN s ELSE Repeat(48, w - Len(s)) \o s

RECURSIVE JoinWith(_, _)
JoinWith(parts, sep) ==
    IF parts = <<>> THEN <<>>
    ELSE IF Len(parts) = 1 THEN parts[1]
    ELSE parts[1] \o sep \o JoinWith(Tail(parts), sep)

\* Groups of four separated by one blank: the printed IBAN format.
Groups4(s) ==
    LET n == (Len(s) + 3) \div 4
    IN  JoinWith([g \in 1..n |-> PySlice(s, 4 * (g - 1), 4 * g)], <<32>>)

\* Lexicographic order on code point sequences (Python's str order).
RECURSIVE SeqLt(_, _)
SeqLt(a, b) ==
    IF b = <<>> THEN FALSE
    ELSE IF a = <<>> THEN TRUE
    ELSE IF Head(a) # Head(b) THEN Head(a) < Head(b)
    ELSE SeqLt(Tail(a), Tail(b))

SeqLe(a, b) == a = b \/ SeqLt(a, b)
=============================================================================
