SPECIFICATION Spec
CONSTANT MaxLen = 6
CONSTANT Sigma = {65, 66, 53, 55, 56, 97, 32, 1632}
INVARIANT TypeOK
INVARIANT AcceptIffValid
INVARIANT RejectNamesPresentDefect
INVARIANT ValidIffNoDefect
INVARIANT AcceptedCompact
INVARIANT CleanIdempotent
INVARIANT PipelineAgrees
INVARIANT CaseSpaceBlind
