---------------------------- MODULE JudgeGenerate ----------------------------
(***************************************************************************)
(* Verdict operators for the trace validation of IBAN.generate / BBAN.from_components / rebuilding   *)
(* an IBAN from its own components (C08, C09).                             *)
(***************************************************************************)
EXTENDS RealData, Generate


GenOutcome(e) ==
    LET key == IF Len(e.cc) = 2 THEN <<e.cc[1], e.cc[2]>> ELSE <<>>
        known == key \in DOMAIN Table
    IN  IF e.out.k = "exc" /\ ~e.out.lib THEN "non-library-exception"
        ELSE IF ~known \/ ~Table[key].haspos
             THEN (IF e.out.k = "ok" THEN "generated-for-unsupported-country" ELSE "ok")
        ELSE IF ~Table[key].consistent \/ ~Table[key].allfixed THEN "ok"
        \* a component holds a character whose Unicode upper-casing is not the ASCII one this specification
        \* applies (an umlaut, a sharp s that becomes SS ...): only validity of what comes back is judged
        ELSE IF "cmp" \in DOMAIN e /\ ~e.cmp
             THEN (IF e.out.k = "ok" /\ e.op = "iban.generate" /\ ~Valid(Table, e.out.val)
                   THEN "generated-iban-invalid" ELSE "ok")
        \* the BBAN-level builder does not validate what it assembles: with characters no BBAN may hold
        \* (a hyphen, which str.zfill even treats as a sign) it returns something that is no BBAN - outside
        \* the property, which speaks of building an IBAN (IBAN.generate refuses such components)
        ELSE IF e.op = "bban.from_components"
                /\ ~(AllIn(Supplied(e).bank, IsAlnum) /\ AllIn(Supplied(e).branch, IsAlnum) /\ AllIn(Supplied(e).acct, IsAlnum))
             THEN "ok"
        ELSE LET sp == Table[key]
                 s == Supplied(e)
                 long == TooLong(sp, s)
             IN  IF long # {}
                 THEN (IF e.out.k = "ok" THEN "overlong-component-accepted"
                       ELSE IF e.out.cls \notin long THEN "wrong-error-class-for-overlong-component" ELSE "ok")
                 ELSE IF e.out.k = "exc" THEN "ok"
                 ELSE LET v == e.out.val
                          b == IF e.op = "iban.generate" THEN Bban(v) ELSE v
                          c == CarriesClause(sp, b, s)
                      IN  IF e.op = "iban.generate" /\ ~Valid(Table, v) THEN "generated-iban-invalid"
                          ELSE IF e.op = "iban.generate" /\ CountryOf(v) # e.cc THEN "generated-for-another-country"
                          ELSE IF Len(b) # sp.blen THEN "generated-bban-has-wrong-length"
                          ELSE IF c # "" THEN c
                          ELSE IF e.op = "iban.generate" /\ NatClause(key, b) # "" THEN NatClause(key, b)
                          ELSE "ok"

\* positions (1-based) of a BBAN that belong to some component of the country
Covered(sp) == UNION {(sp.pos[n][1] + 1)..sp.pos[n][2] : n \in ComponentSet}

\* e.t: a nationally valid IBAN; out.rebuilt: BBAN.from_components(cc, **components read off it)
RebuildOutcome(e) ==
    LET s == Clean(e.t)
    IN  IF ~ValidClean(Table, s) \/ ~Table[CountryKey(s)].haspos THEN "ok"
        ELSE LET sp == Table[CountryKey(s)]
                 b == Bban(s)
                 key == CountryKey(s)
                 natvalid == key \notin NatCountries \/ (Len(b) = NatLen(key) /\ ~NatUnsettled(key, b) /\ NatOK(key, b))
             IN  IF ~natvalid THEN "ok"
                 ELSE IF e.out.k = "exc" THEN (IF e.out.lib THEN "rebuild-raised" ELSE "non-library-exception")
                 ELSE IF Len(e.out.rebuilt) # Len(b) THEN "rebuilt-bban-has-another-length"
                 ELSE IF \E i \in Covered(sp) : e.out.rebuilt[i] # b[i] THEN "rebuilt-bban-differs"
                 ELSE "ok"
=============================================================================
