---------------------------- MODULE MC_Mod97Errors ----------------------------
(***************************************************************************)
(* Complete model of single-error detection (C03).  The numeric string of  *)
(* an IBAN has at most 70 decimal places (34 characters, two places per    *)
(* letter).  An error changes the number by a delta; it goes undetected    *)
(* only if delta = 0 (mod 97).  Every kind of single error, at every       *)
(* place, with every pair of characters, is one initial state.             *)
(*   k  = number of decimal places to the right of the changed character   *)
(*   a, b = old / new value (digits 0..9, letters 10..35)                  *)
(***************************************************************************)
EXTENDS Naturals, FiniteSets

VARIABLES kind, k, a, b
vars == <<kind, k, a, b>>

RECURSIVE Pow10(_)
Pow10(n) == IF n = 0 THEN 1 ELSE (Pow10(n - 1) * 10) % 97

Digits == 0..9
Letters == 10..35

Init ==
    \/ kind = "substitute-digit"  /\ k \in 0..69 /\ a \in Digits /\ b \in Digits /\ a # b
    \/ kind = "substitute-letter" /\ k \in 0..68 /\ a \in Letters /\ b \in Letters /\ a # b
    \/ kind = "swap-digits"       /\ k \in 0..68 /\ a \in Digits /\ b \in Digits /\ a # b
    \/ kind = "swap-letters"      /\ k \in 0..66 /\ a \in Letters /\ b \in Letters /\ a # b
    \* last check digit (place 0) swapped with the first BBAN character (top place k)
    \/ kind = "swap-wraparound"   /\ k \in 5..69 /\ a \in Digits /\ b \in Digits /\ a # b

Next == UNCHANGED vars
Spec == Init /\ [][Next]_vars

\* delta (mod 97) of the numeric string (9700 is added to keep the dividend positive)
Delta ==
    CASE kind = "substitute-digit"  -> (((a + 9700 - b) % 97) * Pow10(k)) % 97
      [] kind = "substitute-letter" -> (((a + 9700 - b) % 97) * Pow10(k)) % 97
      [] kind = "swap-digits"       -> (((a + 9700 - b) % 97) * 9 * Pow10(k)) % 97
      [] kind = "swap-letters"      -> (((a + 9700 - b) % 97) * 99 * Pow10(k)) % 97
      [] kind = "swap-wraparound"   -> (((a + 9700 - b) % 97) * ((Pow10(k) + 96) % 97)) % 97

Detected == Delta # 0
=============================================================================
