-------------------------------- MODULE Load --------------------------------
(***************************************************************************)
(* The load phase as a state machine.  One transition per registry file,   *)
(* in file-name order: dictionaries are deep-merged (later wins), lists    *)
(* are concatenated (v2 documents expanded first).  When all files are     *)
(* folded in, Freeze publishes the effective registries: that is the       *)
(* frozen state every Ready-phase specification starts from.               *)
(*                                                                         *)
(* Inputs  : VERIF_IBAN_FILES, VERIF_BANK_FILES (raw files, exported       *)
(*           syntactically by harness/export.py, in no particular order)   *)
(* Outputs : VERIF_OUT_TABLE  - the country table (list of CountryRec)     *)
(*           VERIF_OUT_BANKS  - the bank list     (list of BankRec)        *)
(*           VERIF_OUT_TREES  - the effective registries as tagged trees   *)
(***************************************************************************)
EXTENDS Registry, Json, IOUtils

IbanFiles == SortedFiles(JsonDeserialize(IOEnv.VERIF_IBAN_FILES).files)
BankFiles == SortedFiles(JsonDeserialize(IOEnv.VERIF_BANK_FILES).files)

VARIABLES phase,      \* "iban" -> "bank" -> "frozen"
          next,       \* index of the next file to fold in
          ibanAcc,    \* accumulated country dictionary
          bankAcc     \* accumulated bank list
vars == <<phase, next, ibanAcc, bankAcc>>

Init ==
    /\ phase = "iban" /\ next = 1
    /\ ibanAcc = EmptyDict
    /\ bankAcc = <<>>

\* fold the next country file into the accumulator (first file: taken as is)
LoadIbanFile ==
    /\ phase = "iban" /\ next <= Len(IbanFiles)
    /\ ibanAcc' = IF next = 1 THEN IbanFiles[1].tree ELSE Merge(ibanAcc, IbanFiles[next].tree)
    /\ next' = next + 1
    /\ UNCHANGED <<phase, bankAcc>>

IbanDone ==
    /\ phase = "iban" /\ next > Len(IbanFiles)
    /\ phase' = "bank" /\ next' = 1
    /\ UNCHANGED <<ibanAcc, bankAcc>>

\* append the next bank file (v2 documents are expanded first)
LoadBankFile ==
    /\ phase = "bank" /\ next <= Len(BankFiles)
    /\ bankAcc' = bankAcc \o ChunkOf(BankFiles[next])
    /\ next' = next + 1
    /\ UNCHANGED <<phase, ibanAcc>>

TableList(tree) ==
    LET idx == SelectSeq(Indices(Len(tree.k)), LAMBDA i : Len(tree.kc[i]) = 2 /\ IsDict(tree.v[i]))
    IN  [j \in 1..Len(idx) |->
            LET r == CountryRec(tree.v[idx[j]])
            IN  [ key |-> tree.kc[idx[j]], name |-> tree.k[idx[j]],
                  blen |-> r.blen, ilen |-> r.ilen, speccp |-> r.speccp, toks |-> r.toks,
                  wellformed |-> r.wellformed, allfixed |-> r.allfixed, cls |-> r.cls,
                  consistent |-> r.consistent,
                  haspos |-> r.haspos,
                  pos |-> [n \in 1..Len(ComponentNames) |-> r.pos[ComponentNames[n]]],
                  lookup |-> r.lookup,
                  defaults |-> [n \in 1..Len(ComponentNames) |-> r.defaults[ComponentNames[n]]],
                  hasdefault |-> [n \in 1..Len(ComponentNames) |-> ComponentNames[n] \in r.hasdefault],
                  sepa |-> r.sepa ]]

Freeze ==
    /\ phase = "bank" /\ next > Len(BankFiles)
    /\ JsonSerialize(IOEnv.VERIF_OUT_TABLE, TableList(ibanAcc))
    /\ JsonSerialize(IOEnv.VERIF_OUT_BANKS, BanksOf(bankAcc))
    /\ JsonSerialize(IOEnv.VERIF_OUT_TREES, [iban |-> ibanAcc, bank |-> [t |-> "l", v |-> bankAcc]])
    /\ phase' = "frozen"
    /\ UNCHANGED <<next, ibanAcc, bankAcc>>

Next == LoadIbanFile \/ IbanDone \/ LoadBankFile \/ Freeze
Spec == Init /\ [][Next]_vars

\* Once frozen nothing moves; files are folded strictly in order.
FrozenIsFinal == [][phase = "frozen" => UNCHANGED vars]_vars
Monotone == [][next' = next + 1 \/ next' = 1 \/ UNCHANGED next]_vars
=============================================================================
