SPECIFICATION Spec
CONSTANT MaxVia = 1
INVARIANT EqIsEquivalence
INVARIANT OrderIsTotal
INVARIANT CmpConsistent
INVARIANT CopiesAreTheSameValue
INVARIANT SpellingDoesNotMatter
