----------------------------- MODULE TraceCalls -----------------------------
(* Trace specification: one step per recorded event, total verdicts (operators in JudgeCalls). *)
EXTENDS JudgeCalls

Trace == JsonDeserialize(IOEnv.VERIF_TRACE)
VARIABLE l

Verdict(e) ==
    CASE e.op \in {"iban.new", "iban.validate", "iban.is_valid"} -> IbanOutcome(e)
      [] e.op \in {"bic.new", "bic.validate", "bic.is_valid"} -> BicOutcome(e)
      [] e.op = "iban.from_bban" -> FromBbanOutcome(e)
      [] e.op = "iban.parts" -> IbanPartsOutcome(e)
      [] e.op = "bic.parts" -> BicPartsOutcome(e)
      [] e.op = "variants" -> VariantsOutcome(e)
      [] e.op = "consistency" -> ConsistencyOutcome(e)
      [] OTHER -> "unknown-op"

Init == l = 1
Next ==
    /\ l <= Len(Trace)
    /\ LET v == Verdict(Trace[l])
       IN  IF v = "ok" THEN TRUE ELSE PrintT(<<"MISMATCH", Trace[l].i, v>>)
    /\ l' = l + 1
TraceSpec == Init /\ [][Next]_l
TraceConsumed == TLCGet("stats").diameter - 1 = Len(Trace)
=============================================================================
