----------------------------- MODULE TraceCalls -----------------------------
(***************************************************************************)
(* Trace validation of Ready-phase calls that are functions of their       *)
(* arguments and the frozen registry: every recorded event must be the     *)
(* outcome the specification allows.  Verdicts are total: a mismatch is    *)
(* printed with the event id and the clause that failed, and validation    *)
(* goes on with the next event.                                            *)
(***************************************************************************)
EXTENDS RealData, Bic

Trace == TLCEval(JsonDeserialize(IOEnv.VERIF_TRACE))

VARIABLE l

\* ----------------------------------------------------------------- IBAN
\* e.judge = FALSE: the text contains a character whose Unicode upper-casing
\* has an ASCII alphanumeric part; acceptance is then not judged (either
\* reading of "upper-casing" satisfies the property), only totality is.
IbanOutcome(e) ==
    LET t == e.t
        valid == Valid(Table, t)
        D == Defects(Table, t)
    IN  IF e.out.k = "exc" /\ ~e.out.lib THEN "non-library-exception"
        ELSE IF ~e.judge \/ Unsettled(Table, t) THEN "ok"
        ELSE IF e.out.k = "ok"
             THEN IF e.op = "iban.is_valid"
                  THEN (IF e.out.rett # "bool" THEN "is_valid-not-bool"
                        ELSE IF e.out.ret # valid THEN
                            (IF valid THEN "rejected-but-valid" ELSE "accepted-but-invalid")
                        ELSE "ok")
                  ELSE IF ~valid THEN "accepted-but-invalid"
                  ELSE IF e.cmp /\ e.out.val # Clean(t) THEN "compact-differs"
                  ELSE IF ~CompactOK(e.out.val) THEN "compact-not-alnum-34"
                  ELSE IF e.op = "iban.validate" /\ ~e.out.ret THEN "validate-not-true"
                  ELSE "ok"
             ELSE IF e.op = "iban.is_valid" THEN "is_valid-raised"
             ELSE IF valid THEN "rejected-but-valid"
             ELSE IF e.out.cls \notin D THEN "class-not-a-present-defect"
             ELSE "ok"

\* ------------------------------------------------------------------ BIC
BicOutcome(e) ==
    LET t == e.t
        strict == IF e.op = "bic.is_valid" THEN FALSE ELSE e.strict
        valid == BicValid(t, strict)
        D == BicDefects(t, strict)
    IN  IF e.out.k = "exc" /\ ~e.out.lib THEN "non-library-exception"
        ELSE IF ~e.judge THEN "ok"
        ELSE IF e.out.k = "ok"
             THEN IF e.op = "bic.is_valid"
                  THEN (IF e.out.rett # "bool" THEN "is_valid-not-bool"
                        ELSE IF e.out.ret # valid THEN
                            (IF valid THEN "rejected-but-valid" ELSE "accepted-but-invalid")
                        ELSE "ok")
                  ELSE IF ~valid THEN "accepted-but-invalid"
                  ELSE IF e.cmp /\ e.out.val # Clean(t) THEN "compact-differs"
                  ELSE IF e.op = "bic.validate" /\ ~e.out.ret THEN "validate-not-true"
                  ELSE "ok"
             ELSE IF e.op = "bic.is_valid" THEN "is_valid-raised"
             ELSE IF valid THEN "rejected-but-valid"
             ELSE IF e.out.cls \notin D THEN "class-not-a-present-defect"
             ELSE "ok"

Verdict(e) ==
    CASE e.op \in {"iban.new", "iban.validate", "iban.is_valid"} -> IbanOutcome(e)
      [] e.op \in {"bic.new", "bic.validate", "bic.is_valid"} -> BicOutcome(e)
      [] OTHER -> "unknown-op"

Init == l = 1
Next ==
    /\ l <= Len(Trace)
    /\ LET v == Verdict(Trace[l])
       IN  IF v = "ok" THEN TRUE ELSE PrintT(<<"MISMATCH", Trace[l].i, v>>)
    /\ l' = l + 1
TraceSpec == Init /\ [][Next]_l
TraceConsumed == TLCGet("stats").diameter - 1 = Len(Trace)
=============================================================================
