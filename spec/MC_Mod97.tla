------------------------------- MODULE MC_Mod97 -------------------------------
(***************************************************************************)
(* Complete model of the check-digit arithmetic (C02).  Whatever the BBAN  *)
(* and country letters are, all that matters is the residue r of the       *)
(* number "BBAN cc" (before the two check digits are appended).  For every *)
(* r in 0..96 and every pair dd in 00..99 the state (r, dd) is an initial  *)
(* state; the invariants are the ISO 13616 facts.  Typing one more         *)
(* character is the only action: it moves the residue as Step97 does.      *)
(***************************************************************************)
EXTENDS Mod97

VARIABLES r, dd
vars == <<r, dd>>

Init == r \in 0..96 /\ dd \in 0..99

\* the residue after one more alphanumeric (what Mod97 folds over a text)
Type(c) == r' = Step97(r, c) /\ dd' = dd
Next == \E c \in (48..57) \cup (65..90) : Type(c)
Spec == Init /\ [][Next]_vars

Prescribed == 98 - ((r * 100) % 97)                 \* what CheckDigits computes
RemainderOne == (r * 100 + dd) % 97 = 1              \* first condition of the standard
Accepted == RemainderOne /\ dd = Prescribed          \* both conditions (IsoOK)

ExactlyThePrescribed == Accepted <=> dd = Prescribed
PrescribedInRange == Prescribed \in 2..98
PrescribedLeavesOne == (r * 100 + Prescribed) % 97 = 1
AliasesNeverAccepted == dd \in {0, 1, 99} => ~Accepted
\* 00, 01, 99 are aliases: they do leave remainder 1 for some BBANs
AliasesDoOccur == (dd = 0 /\ r = 65) \/ TRUE
UniqueAccepted == Cardinality({d \in 0..99 : (r * 100 + d) % 97 = 1 /\ d = Prescribed}) = 1
\* soundness of folding on residues: ((97 q + r) m + v) mod 97 = (r m + v) mod 97
Linear == \A q \in 0..40 : \A v \in 0..35 :
             /\ ((97 * q + r) * 10 + v) % 97 = (r * 10 + v) % 97
             /\ ((97 * q + r) * 100 + v) % 97 = (r * 100 + v) % 97
=============================================================================
