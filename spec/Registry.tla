------------------------------ MODULE Registry ------------------------------
(***************************************************************************)
(* What the loaded registries mean.  All operators take the raw file       *)
(* sequences (or trees) as arguments so that they serve the real data and  *)
(* synthetic / enumerated registries alike.                                *)
(***************************************************************************)
EXTENDS JsonTree

ComponentNames == <<"account_id", "account_type", "account_code", "account_holder_id",
                    "currency_code", "bank_code", "branch_code", "national_checksum_digits">>
ComponentSet == {ComponentNames[i] : i \in 1..Len(ComponentNames)}

IntField(d, key, default) ==
    IF HasKey(d, key) /\ IsInt(Get(d, key)) THEN Get(d, key).n ELSE default

\* A component's half-open BBAN range <<a, b>>; <<0, 0>> = the country has no such field
PosOf(d, name) ==
    IF HasKey(d, "positions") /\ IsDict(Get(d, "positions")) /\ HasKey(Get(d, "positions"), name)
    THEN LET p == Get(Get(d, "positions"), name).v IN <<p[1].n, p[2].n>>
    ELSE <<0, 0>>

\* A structure is usable for judging acceptance when it parses and the
\* lengths are mutually consistent (when they are not, that is C17's business).
ConsistentToks(toks, blen, ilen) ==
    /\ WellFormed(toks)
    /\ ilen = blen + 4
    /\ (AllFixed(toks) => SumHi(toks) = blen)

SpecToks(d) == IF HasKey(d, "bban_spec") /\ IsStr(Get(d, "bban_spec"))
               THEN Parse(Get(d, "bban_spec").c) ELSE <<BadTok>>

CountryRec(d) ==
    [ blen   |-> IntField(d, "bban_length", 0 - 1),
      ilen   |-> IntField(d, "iban_length", 0 - 1),
      speccp |-> IF HasKey(d, "bban_spec") /\ IsStr(Get(d, "bban_spec")) THEN Get(d, "bban_spec").c ELSE <<>>,
      toks   |-> SpecToks(d),
      wellformed |-> WellFormed(SpecToks(d)),
      allfixed   |-> AllFixed(SpecToks(d)),
      cls    |-> IF WellFormed(SpecToks(d)) /\ AllFixed(SpecToks(d)) THEN ClassSeq(SpecToks(d)) ELSE <<>>,
      consistent |-> ConsistentToks(SpecToks(d), IntField(d, "bban_length", 0 - 1), IntField(d, "iban_length", 0 - 1)),
      haspos |-> HasKey(d, "positions"),
      pos    |-> [name \in ComponentSet |-> PosOf(d, name)],
      lookup |-> IF HasKey(d, "bic_lookup_components")
                 THEN LET l == Get(d, "bic_lookup_components").v IN [i \in 1..Len(l) |-> l[i].s]
                 ELSE <<"bank_code">>,
      defaults |-> [name \in ComponentSet |->
                      IF HasKey(d, "default_" \o name) THEN Get(d, "default_" \o name).c ELSE <<>>],
      hasdefault |-> {name \in ComponentSet : HasKey(d, "default_" \o name)},
      sepa   |-> IF HasKey(d, "in_sepa_zone") /\ IsBool(Get(d, "in_sepa_zone"))
                 THEN Get(d, "in_sepa_zone").b ELSE FALSE ]

\* The country table: <<c1, c2>> |-> CountryRec, for every two-character key
TableOf(tree) ==
    LET idx == {i \in 1..Len(tree.k) : Len(tree.kc[i]) = 2 /\ IsDict(tree.v[i])}
        keyOf(i) == <<tree.kc[i][1], tree.kc[i][2]>>
    IN  [key \in {keyOf(i) : i \in idx} |->
            CountryRec(tree.v[CHOOSE i \in idx : keyOf(i) = key])]

Consistent(sp) == sp.consistent

FitsBban(b, sp) ==
    IF sp.allfixed THEN FitsClasses(b, sp.cls) ELSE Fits(b, sp.toks)

(***************************************************************************)
(* Bank entries.  A field that is absent or null is <<>> / "" / FALSE with *)
(* a presence flag, so that records are homogeneous.                       *)
(***************************************************************************)
StrCp(d, key) == IF HasKey(d, key) /\ IsStr(Get(d, key)) THEN Get(d, key).c ELSE <<>>
StrAtom(d, key) == IF HasKey(d, key) /\ IsStr(Get(d, key)) THEN Get(d, key).s ELSE ""

BankRec(d) ==
    [ cc      |-> StrCp(d, "country_code"),
      code    |-> StrCp(d, "bank_code"),
      bic     |-> StrCp(d, "bic"),
      primary |-> IF HasKey(d, "primary") /\ IsBool(Get(d, "primary")) THEN Get(d, "primary").b ELSE FALSE,
      name    |-> StrAtom(d, "name"),
      short   |-> StrAtom(d, "short_name"),
      algo    |-> StrCp(d, "checksum_algo"),
      algoname |-> StrAtom(d, "checksum_algo"),
      hasalgo |-> HasKey(d, "checksum_algo"),
      wellformed |-> /\ HasKey(d, "country_code") /\ IsStr(Get(d, "country_code"))
                     /\ HasKey(d, "bank_code") /\ IsStr(Get(d, "bank_code"))
                     /\ HasKey(d, "bic") /\ (IsStr(Get(d, "bic")) \/ IsNull(Get(d, "bic")))
                     /\ HasKey(d, "primary") /\ IsBool(Get(d, "primary"))
                     /\ HasKey(d, "name") /\ HasKey(d, "short_name") ]

BanksOf(list) == [i \in 1..Len(list) |-> BankRec(list[i])]

\* Index semantics: entries are filed under a key only when every part of
\* the key is non-empty.
EntriesFor(banks, cc, code) ==
    SelectSeq(banks, LAMBDA b : b.cc = cc /\ b.code = code /\ cc # <<>> /\ code # <<>>)
EntriesForBic(banks, bic) == SelectSeq(banks, LAMBDA b : b.bic = bic /\ bic # <<>>)
EntriesForCountry(banks, cc) == SelectSeq(banks, LAMBDA b : b.cc = cc /\ cc # <<>>)
=============================================================================
