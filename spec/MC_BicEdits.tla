----------------------------- MODULE MC_BicEdits -----------------------------
(***************************************************************************)
(* Bounded model of BIC validation (C04, C05): four seed BICs and every    *)
(* text within one edit (substitution / insertion / deletion over Sigma1,  *)
(* every country pair) and two edits (over Sigma2) of them, in both        *)
(* compliance modes, run through the stage machine of the validating call. *)
(***************************************************************************)
EXTENDS Bic

CONSTANTS Sigma1, Sigma2

Seeds == { <<65,65,65,65,68,69,65,65>>,                 \* AAAADEAA
           <<65,65,65,65,68,69,65,65,65,65,65>>,        \* AAAADEAAAAA
           <<49,65,50,66,70,82,57,90>>,                 \* 1A2BFR9Z
           <<49,65,50,66,70,82,57,90,88,88,88>> }       \* 1A2BFR9ZXXX

CCChars == (65..90) \cup {49, 97}

Subst(s, S)  == {[s EXCEPT ![p] = c] : p \in 1..Len(s), c \in S}
Insert(s, S) == {SubSeq(s, 1, p) \o <<c>> \o SubSeq(s, p + 1, Len(s)) : p \in 0..Len(s), c \in S}
Delete(s)    == {SubSeq(s, 1, p - 1) \o SubSeq(s, p + 1, Len(s)) : p \in 1..Len(s)}
SetCC(s)     == IF Len(s) < 6 THEN {} ELSE {[s EXCEPT ![5] = x, ![6] = y] : x \in CCChars, y \in CCChars}
Grow(s)      == {s \o [i \in 1..n |-> 65] : n \in 1..6}
Shrink(s)    == {SubSeq(s, 1, n) : n \in 0..Len(s)}

Edit(s, S) == Subst(s, S) \cup Insert(s, S) \cup Delete(s)

VARIABLES text, strict, pc, err, depth
vars == <<text, strict, pc, err, depth>>

Init == text \in Seeds /\ strict \in BOOLEAN /\ pc = "edit" /\ err = "" /\ depth = 0

\* one wide edit of a seed (then the text is submitted) ...
EditWide ==
    /\ pc = "edit" /\ depth = 0
    /\ text' \in Edit(text, Sigma1) \cup SetCC(text) \cup Grow(text) \cup Shrink(text)
    /\ depth' = 2
    /\ UNCHANGED <<strict, pc, err>>
\* ... or up to two narrow edits
EditNarrow ==
    /\ pc = "edit" /\ depth < 2
    /\ text' \in Edit(text, Sigma2)
    /\ depth' = depth + 1
    /\ UNCHANGED <<strict, pc, err>>
\* the (possibly edited) text is handed to the validating call
Submit == pc = "edit" /\ pc' = "length" /\ depth' = 0 /\ UNCHANGED <<text, strict, err>>

Step(st, e, nxt) ==
    /\ pc = st
    /\ IF e = "" THEN pc' = nxt /\ err' = err ELSE pc' = "reject" /\ err' = e
    /\ UNCHANGED <<text, strict, depth>>

ChkLength    == Step("length", BicStageLength(Clean(text)), "structure")
ChkStructure == Step("structure", BicStageStructure(Clean(text), strict), "country")
ChkCountry   == Step("country", BicStageCountry(Clean(text)), "accept")
Done         == pc \in {"accept", "reject"} /\ UNCHANGED vars

Next == EditWide \/ EditNarrow \/ Submit \/ ChkLength \/ ChkStructure \/ ChkCountry \/ Done
Spec == Init /\ [][Next]_vars

AcceptIffValid == /\ pc = "accept" => BicValid(text, strict)
                  /\ pc = "reject" => ~BicValid(text, strict)
RejectNamesPresentDefect == pc = "reject" => err \in BicDefects(text, strict)
ValidIffNoDefect == BicValid(text, strict) <=> BicDefects(text, strict) = {}
PipelineAgrees == pc \in {"accept", "reject"} =>
                     BicPipeline(text, strict) = (IF pc = "accept" THEN "" ELSE err)
StrictIsStricter == BicValid(text, TRUE) => BicValid(text, FALSE)
AcceptedIsAlnum == pc = "accept" => AllIn(Clean(text), IsAlnum) /\ Len(Clean(text)) \in {8, 11}
PartsLossless == pc = "accept" =>
    LET s == Clean(text) IN BicParty(s) \o BicCountry(s) \o BicLocation(s) \o BicBranch(s) = s
=============================================================================
