SPECIFICATION Spec
CONSTANT Sigma1 = {65, 90, 48, 57, 97, 122, 32, 45, 95, 46, 1632, 196, 65313, 8203, 9, 0}
CONSTANT Sigma2 = {65, 49, 97, 32, 45, 1632, 196, 88}
INVARIANT AcceptIffValid
INVARIANT RejectNamesPresentDefect
INVARIANT ValidIffNoDefect
INVARIANT PipelineAgrees
INVARIANT StrictIsStricter
INVARIANT AcceptedIsAlnum
INVARIANT PartsLossless
