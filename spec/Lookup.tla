-------------------------------- MODULE Lookup --------------------------------
(***************************************************************************)
(* Bank-code <-> BIC lookups over a bank list (sequence of BankRec).       *)
(*  normative: which answers are allowed (CandidatesOK, SelectOK, ...)     *)
(*  implementation-shaped: CandidatesImpl / SelectImpl, the way the        *)
(*  library computes one allowed answer (stable sort, sorted()[-1]).       *)
(***************************************************************************)
EXTENDS Registry, Bic

\* indices (within idx) of the entries filed under (cc, code); empty key parts are never filed
Sel(banks, idx, cc, code) ==
    IF cc = <<>> \/ code = <<>> THEN {} ELSE {i \in idx : banks[i].cc = cc /\ banks[i].code = code}
SelBic(banks, idx, bic) == IF bic = <<>> THEN {} ELSE {i \in idx : banks[i].bic = bic}

Bag(banks, S) == [b \in {banks[i].bic : i \in S} |-> Cardinality({i \in S : banks[i].bic = b})]
SeqBag(o, lo, hi) == [b \in {o[j] : j \in lo..hi} |-> Cardinality({j \in lo..hi : o[j] = b})]

IsXXX(b) == Len(b) = 11 /\ b[9] = 88 /\ b[10] = 88 /\ b[11] = 88

\* o: the returned candidate list (sequence of BIC texts), M: indices of the matching entries
CandidatesOK(o, banks, M) ==
    LET P == {i \in M : banks[i].primary /\ banks[i].bic # <<>>}
        Q == {i \in M : ~banks[i].primary /\ banks[i].bic # <<>>}
        np == Cardinality(P)
    IN  /\ Len(o) = np + Cardinality(Q)
        /\ SeqBag(o, 1, np) = Bag(banks, P)
        /\ SeqBag(o, np + 1, Len(o)) = Bag(banks, Q)

\* the single BIC chosen from a non-empty candidate list o
SelectOK(choice, o) ==
    /\ \E j \in 1..Len(o) : o[j] = choice
    /\ IF \E j \in 1..Len(o) : Len(o[j]) = 8 THEN Len(choice) = 8
       ELSE IF \E j \in 1..Len(o) : IsXXX(o[j]) THEN IsXXX(choice)
       ELSE choice = o[1]

\* every BIC of the matching entries is a valid BIC or empty (else C17 reports the data)
BicsUsable(banks, M) == \A i \in M : banks[i].bic = <<>> \/ BicValidClean(banks[i].bic, FALSE)

\* reverse lookups
CodesOfBic(banks, idx, bic) == {banks[i].code : i \in SelBic(banks, idx, bic)}
SortedSeqOK(o, S) == /\ {o[j] : j \in 1..Len(o)} = S /\ Len(o) = Cardinality(S)
                     /\ \A j \in 1..(Len(o) - 1) : SeqLt(o[j], o[j + 1])

\* ------------------------------------------------ implementation-shaped
\* entries in registry order -> primaries first (stable), empty BICs dropped
CandidatesImpl(banks, M) ==
    LET ordered == SelectSeq(Indices(Len(banks)), LAMBDA i : i \in M)
        prim == SelectSeq(ordered, LAMBDA i : banks[i].primary)
        rest == SelectSeq(ordered, LAMBDA i : ~banks[i].primary)
        all == prim \o rest
        keep == SelectSeq(all, LAMBDA i : banks[i].bic # <<>>)
    IN  [j \in 1..Len(keep) |-> banks[keep[j]].bic]

MaxOf(S) == CHOOSE x \in S : \A y \in S : SeqLe(y, x)
SelectImpl(o) ==
    LET short == {o[j] : j \in {j \in 1..Len(o) : Len(o[j]) = 8}}
        xxx == {o[j] : j \in {j \in 1..Len(o) : IsXXX(o[j])}}
    IN  IF Len(o) > 1 /\ short # {} THEN MaxOf(short)
        ELSE IF Len(o) > 1 /\ xxx # {} THEN MaxOf(xxx)
        ELSE o[1]
=============================================================================
