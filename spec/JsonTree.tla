------------------------------ MODULE JsonTree ------------------------------
(***************************************************************************)
(* JSON documents as tagged trees (see harness/export.py for the syntax):  *)
(*   [t |-> "d", k |-> <<keys>>, kc |-> <<key code points>>, v |-> <<..>>] *)
(*   [t |-> "l", v |-> <<..>>]   [t |-> "s", s |-> "..", c |-> <<..>>]     *)
(*   [t |-> "i", n |-> 1]  [t |-> "b", b |-> TRUE]  [t |-> "z"]            *)
(* and the two composition rules of the registry loader:                   *)
(*   dict registries  : deep merge, the later document wins                *)
(*   list registries  : concatenation (after expanding "v2" documents)     *)
(***************************************************************************)
EXTENDS Structure, TLC

IsDict(x) == x.t = "d"
IsList(x) == x.t = "l"
IsStr(x)  == x.t = "s"
IsInt(x)  == x.t = "i"
IsBool(x) == x.t = "b"
IsNull(x) == x.t = "z"

HasKey(d, key) == \E i \in 1..Len(d.k) : d.k[i] = key
KeyIndex(d, key) == CHOOSE i \in 1..Len(d.k) : d.k[i] = key
Get(d, key) == d.v[KeyIndex(d, key)]
GetOr(d, key, default) == IF HasKey(d, key) THEN Get(d, key) ELSE default

EmptyDict == [t |-> "d", k |-> <<>>, kc |-> <<>>, v |-> <<>>]
NullNode == [t |-> "z"]
BoolNode(b) == [t |-> "b", b |-> b]

Indices(n) == [i \in 1..n |-> i]

(***************************************************************************)
(* Deep right-biased merge of two dictionaries.  At every key present in   *)
(* both: two dictionaries are merged recursively, anything else is         *)
(* replaced by the right value.  Keys present in one side only are kept.   *)
(* Key order: left keys, then new right keys (order carries no meaning).   *)
(***************************************************************************)
\* (No LAMBDA here: TLC cannot apply lambdas while it pre-computes constant
\* definitions, and the merged real table must be pre-computed to be cached.)
RECURSIVE NewIdx(_, _, _)
NewIdx(l, r, i) ==
    IF i > Len(r.k) THEN <<>>
    ELSE (IF HasKey(l, r.k[i]) THEN <<>> ELSE <<i>>) \o NewIdx(l, r, i + 1)

RECURSIVE Merge(_, _)
Merge(l, r) ==
    LET new == NewIdx(l, r, 1)
    IN  [t  |-> "d",
         k  |-> l.k  \o [j \in 1..Len(new) |-> r.k[new[j]]],
         kc |-> l.kc \o [j \in 1..Len(new) |-> r.kc[new[j]]],
         v  |-> [i \in 1..Len(l.k) |->
                    IF HasKey(r, l.k[i])
                    THEN LET rv == Get(r, l.k[i])
                         IN  IF IsDict(l.v[i]) /\ IsDict(rv) THEN Merge(l.v[i], rv) ELSE rv
                    ELSE l.v[i]]
                \o [j \in 1..Len(new) |-> r.v[new[j]]]]

\* Order-insensitive equality of trees (dict key order is not significant).
RECURSIVE TreeEq(_, _)
TreeEq(a, b) ==
    /\ a.t = b.t
    /\ CASE a.t = "d" -> /\ Len(a.k) = Len(b.k)
                         /\ \A i \in 1..Len(a.k) :
                               HasKey(b, a.k[i]) /\ TreeEq(a.v[i], Get(b, a.k[i]))
         [] a.t = "l" -> /\ Len(a.v) = Len(b.v)
                         /\ \A i \in 1..Len(a.v) : TreeEq(a.v[i], b.v[i])
         [] a.t = "s" -> a.s = b.s
         [] a.t = "f" -> a.s = b.s
         [] a.t = "i" -> a.n = b.n
         [] a.t = "b" -> a.b = b.b
         [] OTHER -> TRUE

(***************************************************************************)
(* "v2" bank documents: {"entries":[..], "expand_from":F, "expand_into":I} *)
(* Every entry is expanded into one entry per value of its list F, each    *)
(* carrying that value under key I, F removed, and primary defaulting to   *)
(* false.                                                                  *)
(***************************************************************************)
RECURSIVE KeepIdx(_, _, _)
KeepIdx(d, key, i) ==
    IF i > Len(d.k) THEN <<>>
    ELSE (IF d.k[i] = key THEN <<>> ELSE <<i>>) \o KeepIdx(d, key, i + 1)

WithoutKey(d, key) ==
    LET keep == KeepIdx(d, key, 1)
    IN  [t |-> "d", k  |-> [j \in 1..Len(keep) |-> d.k[keep[j]]],
                    kc |-> [j \in 1..Len(keep) |-> d.kc[keep[j]]],
                    v  |-> [j \in 1..Len(keep) |-> d.v[keep[j]]]]

WithKey(d, key, keycp, val) ==
    LET base == WithoutKey(d, key)
    IN  [t |-> "d", k |-> Append(base.k, key), kc |-> Append(base.kc, keycp), v |-> Append(base.v, val)]

RECURSIVE Flatten(_)
Flatten(ss) == IF ss = <<>> THEN <<>> ELSE Head(ss) \o Flatten(Tail(ss))

ExpandEntry(e, from, into, intocp) ==
    LET vals == Get(e, from).v
        base0 == WithoutKey(e, from)
        base == IF HasKey(base0, "primary") THEN base0
                ELSE WithKey(base0, "primary", <<112,114,105,109,97,114,121>>, BoolNode(FALSE))
    IN  [i \in 1..Len(vals) |-> WithKey(base, into, intocp, vals[i])]

ExpandV2(doc) ==
    LET from == Get(doc, "expand_from").s
        into == Get(doc, "expand_into")
        ents == Get(doc, "entries").v
    IN  Flatten([i \in 1..Len(ents) |-> ExpandEntry(ents[i], from, into.s, into.c)])

\* ".json" stripped (the name's last suffix)
Stem(nc) == IF Len(nc) >= 5 THEN SubSeq(nc, 1, Len(nc) - 5) ELSE nc
IsV2Name(nc) == LET st == Stem(nc) IN Len(st) >= 2 /\ st[Len(st) - 1] = 118 /\ st[Len(st)] = 50

\* Files in code point order of their names
SortedFiles(files) == SortSeq(files, LAMBDA a, b : SeqLt(a.nc, b.nc))

RECURSIVE FoldMerge(_, _, _)
FoldMerge(files, i, acc) ==
    IF i > Len(files) THEN acc ELSE FoldMerge(files, i + 1, Merge(acc, files[i].tree))

\* The effective dictionary registry of a set of files
EffectiveDict(files) ==
    LET fs == SortedFiles(files) IN IF fs = <<>> THEN EmptyDict ELSE FoldMerge(fs, 2, fs[1].tree)

ChunkOf(f) == IF IsV2Name(f.nc) THEN ExpandV2(f.tree) ELSE f.tree.v

\* The effective list registry of a set of files
EffectiveList(files) ==
    LET fs == SortedFiles(files) IN Flatten([i \in 1..Len(fs) |-> ChunkOf(fs[i])])
=============================================================================
