------------------------------- MODULE MC_Merge -------------------------------
(***************************************************************************)
(* Deep later-wins merge, exhaustively on small documents (C18).           *)
(* Trees: dictionaries of depth <= 2 over keys {a, b}, scalars {1, 2} -     *)
(* every shape of nested conflict, including dict-versus-scalar in both    *)
(* directions.  The state is a sequence of N files being folded; the       *)
(* invariants characterise the result WITHOUT recursion on the merge:      *)
(* by its set of leaves (path, scalar) and dictionary paths.               *)
(***************************************************************************)
EXTENDS JsonTree

CONSTANT N          \* number of documents (2: all pairs; 3: all triples of a reduced set)
CONSTANT Reduced    \* TRUE: only depth-2 dictionaries whose "b" entry is absent or scalar

Keys == <<"a", "b">>
KeyCp(k) == IF k = "a" THEN <<97>> ELSE <<98>>
Scalar(n) == [t |-> "i", n |-> n]
Scalars == {Scalar(1), Scalar(2)}
Absent == [t |-> "absent"]

\* a dictionary from a function {a,b} -> value or Absent
MkDict(f) ==
    LET present == SelectSeq(Keys, LAMBDA k : f[k] # Absent)
    IN  [t |-> "d", k |-> present, kc |-> [i \in 1..Len(present) |-> KeyCp(present[i])],
         v |-> [i \in 1..Len(present) |-> f[present[i]]]]

Dicts1 == {MkDict(f) : f \in [{"a", "b"} -> Scalars \cup {Absent}]}
Values2 == Scalars \cup Dicts1 \cup {Absent}
Dicts2 == {MkDict(f) : f \in [{"a", "b"} -> Values2]}
Docs == IF Reduced THEN {d \in Dicts2 : ~HasKey(d, "b") \/ ~IsDict(Get(d, "b"))} ELSE Dicts2

VARIABLES docs, i, acc
vars == <<docs, i, acc>>

Init == docs \in [1..N -> Docs] /\ i = 1 /\ acc = EmptyDict
Fold == i <= N /\ acc' = (IF i = 1 THEN docs[1] ELSE Merge(acc, docs[i])) /\ i' = i + 1 /\ docs' = docs
Next == Fold \/ (i > N /\ UNCHANGED vars)
Spec == Init /\ [][Next]_vars

\* ---------------------------------------------------------------- paths
Paths == {<<k>> : k \in {"a", "b"}} \cup {<<k, m>> : k \in {"a", "b"}, m \in {"a", "b"}}
Node(t, p) ==
    IF ~HasKey(t, p[1]) THEN Absent
    ELSE LET c == Get(t, p[1])
         IN  IF Len(p) = 1 THEN c
             ELSE IF IsDict(c) /\ HasKey(c, p[2]) THEN Get(c, p[2]) ELSE Absent
Leaves(t) == {<<p, Node(t, p)>> : p \in {q \in Paths : Node(t, q) \in Scalars}}
DictPaths(t) == {p \in Paths : Node(t, p) # Absent /\ Node(t, p).t = "d"}
Prefix(p, k) == SubSeq(p, 1, k)
\* a left leaf at p is overridden when the right document has anything at p, or a
\* non-dictionary at a prefix of p
Shadowed(p, r) ==
    \E k \in 1..Len(p) : Node(r, Prefix(p, k)) # Absent /\ (k = Len(p) \/ Node(r, Prefix(p, k)).t # "d")

MergeLeaves(l, r) == Leaves(r) \cup {x \in Leaves(l) : ~Shadowed(x[1], r)}
MergeDictPaths(l, r) == DictPaths(r) \cup {p \in DictPaths(l) : ~Shadowed(p, r) \/ p \in DictPaths(r)}

\* expected accumulated leaves after folding docs[1..n], computed without Merge
RECURSIVE FoldLeaves(_, _)
FoldLeaves(d, n) == IF n = 1 THEN Leaves(d[1])
                    ELSE Leaves(d[n]) \cup {x \in FoldLeaves(d, n - 1) : ~Shadowed(x[1], d[n])}

LaterWinsAtEveryPath == i > 1 => Leaves(acc) = FoldLeaves(docs, i - 1)
PairLaw == N = 2 /\ i = 3 =>
              /\ Leaves(acc) = MergeLeaves(docs[1], docs[2])
              /\ DictPaths(acc) = MergeDictPaths(docs[1], docs[2])
\* an overlay changes exactly the keys it names: paths not below a named path keep their value
OverlayLocal == N = 2 /\ i = 3 =>
    \A p \in Paths : (\A k \in 1..Len(p) : Node(docs[2], Prefix(p, k)) = Absent) =>
                        Node(acc, p) = Node(docs[1], p)
\* Deep merge is NOT associative in general (TLC's counterexample: {a:{b:1}}, {a:1}, {a:{},b:2});
\* the registry is therefore defined as the LEFT fold in name order.  It is associative
\* when no path is a dictionary in one document and a scalar in another.
Compatible == \A p \in Paths : \A x, y \in 1..N :
                 Node(docs[x], p) # Absent /\ Node(docs[y], p) # Absent
                    => ((Node(docs[x], p).t = "d") <=> (Node(docs[y], p).t = "d"))
Associative == N = 3 /\ i = 4 /\ Compatible => TreeEq(acc, Merge(docs[1], Merge(docs[2], docs[3])))
IdempotentRight == i = N + 1 => TreeEq(Merge(acc, docs[N]), acc)
EmptyIsNeutral == i = N + 1 => TreeEq(Merge(acc, EmptyDict), acc) /\ TreeEq(Merge(EmptyDict, acc), acc)
=============================================================================
