----------------------------- MODULE TraceRandom -----------------------------
(* Trace specification: one step per recorded event, total verdicts (operators in JudgeRandom). *)
EXTENDS JudgeRandom

Trace == JsonDeserialize(IOEnv.VERIF_TRACE)
VARIABLE l

Verdict(e) ==
    CASE e.op \in {"iban.random", "bban.random"} -> RandomOutcome(e)
      [] e.op = "repro" -> ReproOutcome(e)
      [] OTHER -> "unknown-op"

Init == l = 1
Next ==
    /\ l <= Len(Trace)
    /\ LET v == Verdict(Trace[l])
       IN  IF v = "ok" THEN TRUE ELSE PrintT(<<"MISMATCH", Trace[l].i, v>>)
    /\ l' = l + 1
TraceSpec == Init /\ [][Next]_l
TraceConsumed == TLCGet("stats").diameter - 1 = Len(Trace)
=============================================================================
