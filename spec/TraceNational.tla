---------------------------- MODULE TraceNational ----------------------------
(* Trace specification: one step per recorded event, total verdicts (operators in JudgeNational). *)
EXTENDS JudgeNational

Trace == JsonDeserialize(IOEnv.VERIF_TRACE)
VARIABLE l

Verdict(e) ==
    CASE e.op \in {"iban.new", "iban.validate"} -> IbanNatOutcome(e)
      [] e.op = "bban.nat" -> BbanNatOutcome(e)
      [] e.op = "algo.validate" -> AlgoOutcome(e)
      [] OTHER -> "unknown-op"

Init == l = 1
Next ==
    /\ l <= Len(Trace)
    /\ LET v == Verdict(Trace[l])
       IN  IF v = "ok" THEN TRUE ELSE PrintT(<<"MISMATCH", Trace[l].i, v>>)
    /\ l' = l + 1
TraceSpec == Init /\ [][Next]_l
TraceConsumed == TLCGet("stats").diameter - 1 = Len(Trace)
=============================================================================
