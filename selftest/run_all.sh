#!/bin/sh
# Runs every check (tier $1, default quick) on the tree under test; prints one line per check.
cd "$(dirname "$0")/.." || exit 2
tier=${1:-quick}
rc=0
for c in C01 C02 C03 C04 C05 C06 C07 C08 C09 C10 C11 C12 C13 C14 C15 C16 C17 C18; do
  start=$(date +%s)
  out=$(./check $c $tier 2>&1); r=$?
  echo "$c rc=$r $(($(date +%s)-start))s $(echo "$out" | grep -E '^(OK|VIOLATION|KNOWN-FINDING)' | tail -1)"
  [ $r -ne 0 ] && rc=1 && echo "$out" | tail -5
done
exit $rc
