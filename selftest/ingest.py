#!/venv/bin/python
"""Confirm a sub-agent's seeded change independently and file it under /verif/seeded/<id>/.
usage: ingest.py <srcdir> <id> [extra property ids...]
Checks, in a fresh scratch worktree of /repo: the patch applies; the repository's tests pass
with it; the demonstration fails with it and passes without it."""
import json
import os
import shutil
import subprocess
import sys
import tempfile
from pathlib import Path

VERIF = Path(__file__).resolve().parent.parent
src, mid = Path(sys.argv[1]), sys.argv[2]
meta = json.loads((src / "meta.json").read_text())
demo = next(src.glob("demo_*.py"))
root = Path(tempfile.mkdtemp(prefix="verif-ingest-"))
wt = root / "repo"
subprocess.run(["git", "-C", "/repo", "worktree", "add", "--detach", "-q", str(wt)], check=True)
ran = []
try:
    env = dict(os.environ, PYTHONPATH=str(wt), PYTHONDONTWRITEBYTECODE="1")
    shutil.copy(demo, wt / demo.name)
    r0 = subprocess.run(["/venv/bin/python", demo.name], cwd=wt, env=env, capture_output=True, text=True)
    ran.append(f"demo without change: exit {r0.returncode}")
    a = subprocess.run(["git", "-C", str(wt), "apply", str(src / "patch.diff")], capture_output=True, text=True)
    ran.append(f"git apply: exit {a.returncode} {a.stderr[-200:]}")
    t = subprocess.run(["/venv/bin/python", "-m", "pytest", "-q", "-p", "no:cacheprovider",
                        "--deselect", "tests/test_bic.py::test_pydantic_protocol",
                        "--deselect", "tests/test_iban.py::test_pydantic_protocol"], cwd=wt, env=env,
                       capture_output=True, text=True)
    ran.append("pytest with change: " + t.stdout.strip().splitlines()[-1])
    r1 = subprocess.run(["/venv/bin/python", demo.name], cwd=wt, env=env, capture_output=True, text=True)
    ran.append(f"demo with change: exit {r1.returncode}")
    ok = r0.returncode == 0 and a.returncode == 0 and t.returncode == 0 and r1.returncode != 0
    print("\n".join(ran))
    if not ok:
        print("NOT CONFIRMED")
        sys.exit(1)
    dst = VERIF / "seeded" / mid
    dst.mkdir(parents=True, exist_ok=True)
    shutil.copy(src / "patch.diff", dst / "patch.diff")
    shutil.copy(demo, dst / demo.name)
    props = [meta.get("property")] + sys.argv[3:]
    out = {"property": props if len(props) > 1 else props[0], "summary": meta.get("summary", ""),
           "needs": meta.get("needs", ""), "confirmed_by_me": ran, "agent_ran": meta.get("ran", [])}
    (dst / "meta.json").write_text(json.dumps(out, indent=1, ensure_ascii=False))
    print("CONFIRMED ->", dst)
finally:
    subprocess.run(["git", "-C", "/repo", "worktree", "remove", "--force", str(wt)], capture_output=True)
    shutil.rmtree(root, ignore_errors=True)
