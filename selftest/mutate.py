#!/venv/bin/python
"""Self-test: apply each catalogued mutant to a scratch copy of the repository
(never to /repo itself), run the checks that are expected to notice it with
VERIF_REPO pointing at the copy, and report which checks raised VIOLATION.

usage: mutate.py [-j N] [--tier quick] [id-substring ...]
Mutants: selftest/mutants.json  [{"id","file","old","new","expect":[props], "note"}]
         and seeded/<id>/patch.diff with meta.json {"property": ..} (from sub-agents)
"""
from __future__ import annotations

import json
import os
import shutil
import subprocess
import sys
import tempfile
from concurrent.futures import ThreadPoolExecutor
from pathlib import Path

VERIF = Path(__file__).resolve().parent.parent
REPO = Path("/repo")


def load() -> list[dict]:
    muts = json.loads((VERIF / "selftest" / "mutants.json").read_text())
    seeded = VERIF / "seeded"
    if seeded.exists():
        for d in sorted(seeded.iterdir()):
            meta = d / "meta.json"
            if meta.exists() and (d / "patch.diff").exists():
                m = json.loads(meta.read_text())
                props = m.get("property")
                muts.append({"id": f"seeded/{d.name}", "patch": str(d / "patch.diff"),
                             "expect": props if isinstance(props, list) else [props],
                             "note": m.get("needs", "")})
    return muts


def make_copy() -> Path:
    root = Path(tempfile.mkdtemp(prefix="verif-mut-"))
    subprocess.run(["git", "-C", str(REPO), "worktree", "add", "--detach", "-q", str(root / "repo")], check=True)
    return root


def drop_copy(root: Path) -> None:
    subprocess.run(["git", "-C", str(REPO), "worktree", "remove", "--force", str(root / "repo")],
                   capture_output=True)
    shutil.rmtree(root, ignore_errors=True)


def run_one(m: dict, tier: str) -> dict:
    root = make_copy()
    repo = root / "repo"
    res = {"id": m["id"], "expect": m["expect"], "caught": [], "missed": [], "errors": []}
    try:
        if "patch" in m:
            r = subprocess.run(["git", "-C", str(repo), "apply", m["patch"]], capture_output=True, text=True)
            if r.returncode != 0:
                res["errors"].append("patch does not apply: " + r.stderr[-300:])
                return res
        else:
            f = repo / m["file"]
            src = f.read_text()
            if src.count(m["old"]) != 1:
                res["errors"].append(f"pattern occurs {src.count(m['old'])} times")
                return res
            f.write_text(src.replace(m["old"], m["new"]))
        env = dict(os.environ, VERIF_REPO=str(repo), PYTHONDONTWRITEBYTECODE="1")
        if m.get("tests", True):
            t = subprocess.run(["/venv/bin/python", "-m", "pytest", "-q", "-p", "no:cacheprovider", "-x",
                                "--deselect", "tests/test_bic.py::test_pydantic_protocol",
                                "--deselect", "tests/test_iban.py::test_pydantic_protocol"],
                               cwd=repo, env=dict(env, PYTHONPATH=str(repo)), capture_output=True, text=True)
            res["tests_pass"] = t.returncode == 0
        for prop in m.get("quiet", []):
            r = subprocess.run([str(VERIF / "check"), prop, tier], env=env, capture_output=True, text=True)
            if r.returncode == 1:
                res["errors"].append(f"FALSE ALARM by {prop}: " + r.stderr[-300:])
            elif r.returncode != 0:
                res["errors"].append(f"{prop}: rc={r.returncode} {r.stderr[-300:]}")
            else:
                res.setdefault("quiet_ok", []).append(prop)
        for prop in m["expect"]:
            try:
                r = subprocess.run([str(VERIF / "check"), prop, tier], env=env, capture_output=True, text=True,
                                   timeout=2700)
            except subprocess.TimeoutExpired:
                res["errors"].append(f"{prop}: did not finish within 45 minutes")
                continue
            if r.returncode == 1 and "VIOLATION property=" + prop in r.stdout:
                res["caught"].append(prop)
            elif r.returncode == 0:
                res["missed"].append(prop)
            else:
                res["errors"].append(f"{prop}: rc={r.returncode} {r.stderr[-400:]}")
    finally:
        drop_copy(root)
    return res


def main() -> int:
    args = sys.argv[1:]
    jobs, tier = 2, "quick"
    while args and args[0].startswith("-"):
        if args[0] == "-j":
            jobs = int(args[1]); args = args[2:]
        elif args[0] == "--tier":
            tier = args[1]; args = args[2:]
        else:
            args = args[1:]
    allm = load()
    muts = [m for m in allm if not args or any(a in m["id"] for a in args)]
    notes = {m["id"]: m.get("note", "") for m in allm}
    store = VERIF / "selftest" / "results.json"
    results = json.loads(store.read_text()) if store.exists() else {}
    bad = 0
    with ThreadPoolExecutor(max_workers=jobs) as ex:
        for res in ex.map(lambda m: run_one(m, tier), muts):
            status = "CAUGHT" if res["caught"] and not res["missed"] and not res["errors"] else \
                ("ERROR" if res["errors"] else ("QUIET" if not res["expect"] and res.get("quiet_ok") else "MISSED"))
            if status not in ("CAUGHT", "QUIET"):
                bad += 1
            print(f"{status:7} {res['id']:40} caught={res['caught']} missed={res['missed']} "
                  f"tests_pass={res.get('tests_pass')} {res['errors']}", flush=True)
            results[res["id"]] = {"status": status, "tier": tier, "caught": res["caught"], "missed": res["missed"], "quiet": res.get("quiet_ok", []),
                                  "tests_pass": res.get("tests_pass"), "errors": [e[:200] for e in res["errors"]]}
            store.write_text(json.dumps(results, indent=1, sort_keys=True))       # keep what is known so far
    store.write_text(json.dumps(results, indent=1, sort_keys=True))
    lines = ["# Detection record (generated by selftest/mutate.py)", "",
             "| change | existing tests pass | checks that raised VIOLATION | checks expected to alarm that stayed quiet | "
             "benign change: checks that rightly stayed quiet | note |",
             "|---|---|---|---|---|---|"]
    for mid in sorted(results):
        r = results[mid]
        lines.append(f"| {mid} | {r['tests_pass']} | {', '.join(r['caught']) or '-'} | "
                     f"{', '.join(r['missed']) or '-'} | {', '.join(r.get('quiet', [])) or '-'} | "
                     f"{notes.get(mid, '')[:200]} |")
    (VERIF / "selftest" / "RESULTS.md").write_text("\n".join(lines) + "\n")
    return 1 if bad else 0


if __name__ == "__main__":
    sys.exit(main())
