#!/bin/sh
# usage: run_some.sh <tier> <check ids...>
cd "$(dirname "$0")/.." || exit 2
tier=$1; shift
rc=0
for c in "$@"; do
  start=$(date +%s)
  out=$(./check $c $tier 2>&1); r=$?
  echo "$c rc=$r $(($(date +%s)-start))s $(echo "$out" | grep -E '^(OK|VIOLATION|KNOWN-FINDING)' | tail -1)"
  [ $r -ne 0 ] && rc=1 && echo "$out" | tail -5
done
exit $rc
