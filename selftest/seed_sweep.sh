#!/bin/sh
# Soundness sweep: every quick check on the tree under test for several seeds; any rc != 0 is a
# false alarm of the machinery (or a genuine defect) that must be looked at.
cd "$(dirname "$0")/.." || exit 2
rc=0
for seed in "$@"; do
  echo "== seed $seed"
  VERIF_SEED=$seed sh selftest/run_all.sh quick || rc=1
done
exit $rc
