#!/bin/sh
# Offline setup: nothing to build.  Parse every specification module and
# byte-compile the harness so that a broken file is noticed here.
cd "$(dirname "$0")" || exit 1
mkdir -p work evidence replays
fail=0
for f in spec/*.tla; do
  out=$(cd spec && java -cp /opt/veriftools/tla/tla2tools.jar:/opt/veriftools/tla/CommunityModules-deps.jar tla2sany.SANY "$(basename "$f")" 2>&1)
  if echo "$out" | grep -qE "\*\*\* Errors|Fatal errors|Could not find module|Abort"; then
    echo "SANY failed on $f"; echo "$out" | tail -5; fail=1
  fi
done
/venv/bin/python -m compileall -q harness >/dev/null || fail=1
[ -f known_findings.json ] || echo "[]" > known_findings.json
exit $fail
